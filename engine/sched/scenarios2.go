package main

import (
	"crypto/tls"
	"fmt"
	"strings"

	"github.com/hashicorp/go-hclog"
	"verif/codec"
	gldap "verif/gldapx"
	"verif/gldapx/testdirectory"
	vrt "verif/rt"
	"verif/shim/vnet"
)

func init() { moreScenarios = append(moreScenarios, registerTLSAndReady) }

var moreScenarios []func()

// ---------------------------------------------------------------- C13: StartTLS

// startTLSCheck: the conforming session completes; after the StartTLS response every byte is TLS.
func startTLSCheck(expectUpgrades int) func(x *vrt.Sched, w *World) []Finding {
	return func(x *vrt.Sched, w *World) []Finding {
		var fs []Finding
		if x.Deadlock || x.Crash != nil {
			return nil // reported by the universal oracles
		}
		up := 0
		for _, c := range w.Clients {
			if w.Notes[c.Name+"-upgraded"] > 0 {
				up++
			}
			if w.Notes[c.Name+"-handshake-failed"] > 0 {
				fs = append(fs, Finding{"C13", "a conforming StartTLS session fails its TLS handshake", fmt.Sprintf("client %s; log %v", c.Name, x.Log)})
			}
			// wiretap: server -> client
			var s2c, c2s []byte
			for _, ch := range c.Wire {
				if ch.FromServer {
					s2c = append(s2c, ch.B...)
				} else {
					c2s = append(c2s, ch.B...)
				}
			}
			for dir, stream := range map[string][]byte{"server to client": s2c, "client to server": c2s} {
				rest := stream
				plain := 0
				for len(rest) > 0 && rest[0] == 0x30 {
					_, r, err := codec.ParseOne(rest)
					if err != nil {
						break
					}
					rest = r
					plain++
				}
				if w.Notes[c.Name+"-upgraded"] == 0 {
					continue
				}
				if ok, why := tlsRecordStreamOK(rest); !ok {
					fs = append(fs, Finding{"C13", "after the StartTLS upgrade, bytes that are not TLS records go over the wire (" + dir + ")", fmt.Sprintf("client %s after %d plaintext frames: %s", c.Name, plain, why)})
				}
				// plaintext LDAP frames after the upgrade would have been counted as 'plain' only if they came first;
				// the number of plaintext frames must be exactly the pre-upgrade ones
				if dir == "server to client" {
					want := plainResponsesBeforeUpgrade(w, c)
					if plain != want {
						fs = append(fs, Finding{"C13", "the number of plaintext frames sent by the server differs from the responses written before the upgrade", fmt.Sprintf("client %s: %d plaintext frames on the wire, %d expected", c.Name, plain, want)})
					}
				}
			}
		}
		if up != expectUpgrades {
			fs = append(fs, Finding{"C13", "a conforming StartTLS session does not complete", fmt.Sprintf("%d of %d sessions upgraded; notes %v; log %v", up, expectUpgrades, w.Notes, x.Log)})
		}
		// tunnel requests must be answered like on a plain connection
		for _, c := range w.Clients {
			ci := clientIndex(curSpec, c.Name)
			if ci < 0 {
				continue
			}
			cs := curSpec.Conns[ci]
			if cs.Expect > 0 && len(c.Frames) < cs.Expect {
				fs = append(fs, Finding{"C13", "requests inside the TLS tunnel are not answered", fmt.Sprintf("client %s got %d of %d frames (read error %v)", c.Name, len(c.Frames), cs.Expect, c.ReadErr)})
			}
		}
		return fs
	}
}

func plainResponsesBeforeUpgrade(w *World, c *Cl) int {
	ci := clientIndex(curSpec, c.Name)
	if ci < 0 {
		return 0
	}
	n := 0
	for k, op := range curSpec.Conns[ci].Ops {
		n += framesFor(curSpec.Conns[ci].H[k+1])
		if op == "starttls" {
			break
		}
	}
	return n
}

func framesFor(h *HSpec) int {
	if h == nil {
		return 1
	}
	n := len(h.Frames)
	if !h.NoFinal {
		n++
	}
	return n
}

func registerTLSAndReady() {
	chk := startTLSCheck
	for a := 0; a <= 1; a++ {
		for b := 0; b <= 1; b++ {
			regSpec(&Spec{
				Name: fmt.Sprintf("starttls-basic-y%d%d", a, b), Props: []string{"C13", "C06"},
				Conns: []ConnSpec{{Ops: []string{"starttls", "bind", "search"}, H: map[int]*HSpec{1: {Yields: a, YieldsAfter: b}}, Expect: 3}},
				Check: chk(1), Quick: 2, Thor: 3,
			})
		}
	}
	regSpec(&Spec{
		Name: "starttls-after-plain-requests", Props: []string{"C13", "C06", "C05"},
		Conns: []ConnSpec{{Ops: []string{"bind", "search", "starttls", "search", "bind"}, Segs: []int{1, 1, 1, 1}, Expect: 5}},
		Check: chk(1), Quick: 2, Thor: 3,
	})
	regSpec(&Spec{
		Name: "starttls-after-plain-requests-sync", Props: []string{"C13", "C06", "C05"},
		Conns: []ConnSpec{{Ops: []string{"bind", "search", "starttls", "search", "bind"}, Segs: []int{1, 1, 1, 1}, Sync: true, Expect: 5}},
		Check: chk(1), Quick: 2, Thor: 3,
	})
	regSpec(&Spec{
		Name: "starttls-concurrent-tunnel-requests", Props: []string{"C13", "C05"},
		Conns: []ConnSpec{{Ops: []string{"starttls", "search", "bind"}, H: map[int]*HSpec{2: {WaitStarted: 3, Frames: []int{5000}}, 3: {WaitStarted: 3}}, Expect: 4}},
		Check: chk(1), Quick: 2, Thor: 3,
	})
	regSpec(&Spec{
		Name: "starttls-two-sessions", Props: []string{"C13", "C09"},
		Conns: []ConnSpec{
			{Ops: []string{"starttls", "bind"}, Expect: 2},
			{Ops: []string{"starttls", "search"}, Expect: 2},
		},
		Check: chk(2), Quick: 2, Thor: 3,
	})
	// long idle between upgrade and the tunnel request (a deadline left armed by the upgrade would fire)
	reg(&Scn{Name: "starttls-idle-before-tunnel-request", Props: []string{"C13"}, Quick: 1, Thor: 2, Body: func() {
		w := NewWorld()
		curSpec = nil
		w.TLSCfg = getPKI().ServerCfg
		w.StartServer(SrvOpts{})
		done := false
		vrt.GoNamed("c1", func() {
			defer func() { done = true }()
			cl := w.Dial("c1", 0)
			_ = cl.Send(reqBytes("starttls", 1001))
			cl.ReadFrames(1)
			if err := cl.UpgradeTLS(getPKI().ClientCfg); err != nil {
				w.Notes["handshake-failed"]++
				return
			}
			vrt.Sleep(secs(120))
			_ = cl.Send(reqBytes("bind", 1002))
			cl.ReadFrames(2)
			w.Notes["frames"] = len(cl.Frames)
			cl.Close()
		})
		vrt.WaitUntil("done", func() bool { return done })
		w.Stop()
	}, Check: func(x *vrt.Sched, w *World) []Finding {
		if x.Deadlock || x.Crash != nil {
			return []Finding{{"C13", "StartTLS session with an idle period does not complete", fmt.Sprintf("deadlock=%v %v", x.Deadlock, x.Blocked)}}
		}
		if w.Notes["handshake-failed"] > 0 || w.Notes["frames"] != 2 {
			return []Finding{{"C13", "a request sent inside the tunnel after an idle period is not answered", fmt.Sprintf("frames=%d notes=%v", w.Notes["frames"], w.Notes)}}
		}
		return nil
	}})
	// an in-flight pipelined handler across a StartTLS upgrade: not a conforming client, race oracle only
	regSpec(&Spec{
		Name: "starttls-with-inflight-handler", Props: []string{"C15"},
		Conns: []ConnSpec{{Ops: []string{"search", "starttls"}, Segs: []int{1}, H: map[int]*HSpec{1: {WaitNote: "starttls-done", Frames: []int{10}}}, Read: "none", End: "close"}},
		Quick: 2, Thor: 3,
	})

	// ---------------------------------------------------------------- more transports and combinations
	regSpec(&Spec{
		Name: "pipe3-three-writers", Props: []string{"C05", "C06"},
		Conns: []ConnSpec{{
			Ops:    []string{"search", "search", "search"},
			H:      map[int]*HSpec{1: {WaitStarted: 3, Frames: []int{10}}, 2: {WaitStarted: 3, Frames: []int{5000}}, 3: {WaitStarted: 3}},
			Expect: 5,
		}},
		Quick: 2, Thor: 3,
	})
	regSpec(&Spec{
		Name: "pipe2-tls-listener", Props: []string{"C05", "C08", "C18"},
		Srv: SrvOpts{TLS: getPKI().ServerCfg},
		Conns: []ConnSpec{{
			TLS: "listener", Ops: []string{"bind", "search"},
			H:      map[int]*HSpec{1: {WaitStarted: 2}, 2: {WaitStarted: 2, Frames: []int{5000}}},
			Expect: 3,
		}},
		Quick: 2, Thor: 3,
	})
	regSpec(&Spec{
		Name: "end-tls-listener-unbind", Props: []string{"C08", "C10"},
		Srv:   SrvOpts{TLS: getPKI().ServerCfg},
		Conns: []ConnSpec{{TLS: "listener", Ops: []string{"search", "unbind", "bind"}, H: map[int]*HSpec{1: {Yields: 1}}, Read: "all"}},
		Quick: 2, Thor: 3,
	})
	regSpec(&Spec{
		Name: "end-starttls-then-client-close", Props: []string{"C08", "C13"},
		Conns: []ConnSpec{{Ops: []string{"starttls", "search"}, H: map[int]*HSpec{2: {Frames: []int{5000}}}, Expect: 3}},
		Check: startTLSCheck(1), Quick: 2, Thor: 3,
	})
	regSpec(&Spec{
		Name: "two-conns-ending-together", Props: []string{"C08", "C09"},
		Conns: []ConnSpec{
			{Ops: []string{"search"}, H: map[int]*HSpec{1: {Yields: 1}}, Expect: 1},
			{Ops: []string{"bind", "unbind"}, Read: "all"},
		},
		Quick: 2, Thor: 3,
	})
	for _, pr := range []struct {
		name string
		a, b ConnSpec
		srv  SrvOpts
	}{
		{"idle+half-frame", ConnSpec{Ops: []string{"bind"}, Expect: 1, End: "stay"}, ConnSpec{End: "half"}, SrvOpts{}},
		{"idle+pipelining", ConnSpec{End: "stay"}, ConnSpec{Ops: []string{"search", "search"}, Segs: []int{1, 1}, Read: "all"}, SrvOpts{}},
		{"tls-hello-pending+tls-idle", ConnSpec{TLS: "listener-nohello", End: "stay"}, ConnSpec{TLS: "listener", Ops: []string{"bind"}, Expect: 1, End: "stay"}, SrvOpts{TLS: getPKI().ServerCfg}},
	} {
		regSpec(&Spec{
			Name: "stop-with-" + pr.name, Props: []string{"C11"}, Srv: pr.srv,
			Conns: []ConnSpec{pr.a, pr.b}, ClientsIdle: true, StopWhen: "note:c1-done", Quick: 2, Thor: 3,
		})
	}

	// ---------------------------------------------------------------- C18: TLS gatekeeping (schedules)
	p := getPKI()
	type beh struct {
		name  string
		c     ConnSpec
		allow bool
	}
	for _, cfg := range []struct {
		name string
		srv  *tls.Config
		behs []beh
	}{
		{"server-auth", p.ServerCfg, []beh{
			{"plaintext-bind", ConnSpec{Ops: []string{"bind"}, Read: "all"}, false},
			{"plaintext-search", ConnSpec{Ops: []string{"search"}, Read: "all"}, false},
			{"no-hello-then-close", ConnSpec{TLS: "listener-nohello", Read: "none"}, false},
			{"tls-ok", ConnSpec{TLS: "listener", Ops: []string{"bind"}, Expect: 1}, true},
		}},
		{"mtls", p.ServerMTLSCfg, []beh{
			{"plaintext-bind", ConnSpec{Ops: []string{"bind"}, Read: "all"}, false},
			{"tls-no-cert", ConnSpec{TLS: "listener", TLSCfg: p.ClientCfg, Ops: []string{"bind"}, Read: "all"}, false},
			{"tls-other-ca", ConnSpec{TLS: "listener", TLSCfg: p.OtherCfg, Ops: []string{"bind"}, Read: "all"}, false},
			{"tls-right-cert", ConnSpec{TLS: "listener", TLSCfg: p.ClientCertCfg, Ops: []string{"bind"}, Expect: 1}, true},
		}},
	} {
		for _, b := range cfg.behs {
			b := b
			byst := ConnSpec{TLS: "listener", Ops: []string{"search"}, Expect: 1, Name: "bystander"}
			if cfg.name == "mtls" {
				byst.TLSCfg = p.ClientCertCfg
			}
			off := b.c
			off.Name = "offender"
			regSpec(&Spec{
				Name: "tls-" + cfg.name + "-" + b.name, Props: []string{"C18"},
				Srv:   SrvOpts{TLS: cfg.srv},
				Conns: []ConnSpec{off, byst},
				Quick: 1, Thor: 2,
				Check: func(x *vrt.Sched, w *World) []Finding {
					var fs []Finding
					for _, d := range w.Dispatch {
						if clientOfMsg(d.MsgID) == 0 && !b.allow {
							fs = append(fs, Finding{"C18", "a handler runs for a connection that did not complete a TLS session satisfying the configuration (" + cfg.name + ", " + b.name + ")", fmt.Sprintf("%+v", d)})
						}
					}
					if x.Deadlock || x.Crash != nil {
						return fs
					}
					for _, c := range w.Clients {
						if c.Name == "bystander" && len(c.Frames) != 1 {
							fs = append(fs, Finding{"C18", "a conforming TLS client is not served while another connection fails the TLS requirements", fmt.Sprintf("%s: frames=%d err=%v", b.name, len(c.Frames), c.ReadErr)})
						}
						if c.Name == "offender" && b.allow && len(c.Frames) != 1 {
							fs = append(fs, Finding{"C18", "a client that satisfies the TLS configuration is not served", b.name})
						}
						if c.Name == "offender" && !b.allow && len(c.Frames) > 0 {
							fs = append(fs, Finding{"C18", "a client that does not satisfy the TLS configuration receives an LDAP response", b.name})
						}
					}
					return fs
				},
			})
		}
	}

	// ---------------------------------------------------------------- C17: Ready
	for _, v := range []struct {
		name  string
		inUse bool
		tls   bool
	}{{"free-port", false, false}, {"free-port-tls", false, true}, {"port-in-use", true, false}} {
		v := v
		props := []string{"C17"}
		if v.inUse {
			props = []string{"C17", "C11"}
		}
		reg(&Scn{Name: "ready-" + v.name, Props: props, Quick: 3, Thor: -1, Body: func() {
			w := NewWorld()
			vrt.PermuteMaps = false
			curSpec = nil
			if v.inUse {
				if _, err := vnet.Listen("tcp", defaultAddr); err != nil {
					panic(err)
				}
			}
			o := SrvOpts{}
			if v.tls {
				o.TLS = getPKI().ServerCfg
			}
			w.StartServer(o)
			pollerDone := false
			vrt.GoNamed("poller", func() {
				defer func() { pollerDone = true }()
				for i := 0; i < 5; i++ {
					if w.Srv.Ready() {
						w.Notes["ready-true"]++
						if w.RunDone {
							w.Notes["ready-true-after-run-returned"]++
						}
						cl := w.DialNow("c1")
						if cl.DialErr != nil {
							w.Notes["dial-failed"]++
							return
						}
						if v.tls {
							if err := cl.UpgradeTLS(getPKI().ClientCfg); err != nil {
								w.Notes["dial-failed"]++
								return
							}
						}
						_ = cl.Send(reqBytes("bind", 1001))
						cl.ReadFrames(1)
						if len(cl.Frames) == 1 {
							w.Notes["served"]++
						}
						cl.Close()
						return
					}
					vrt.Yield()
				}
				w.Notes["never-ready"]++
			})
			vrt.WaitUntil("poller-done", func() bool { return pollerDone })
			if v.inUse {
				vrt.WaitUntil("run-done", func() bool { return w.RunDone })
				vrt.GoNamed("poller2", func() {
					if w.Srv.Ready() {
						w.Notes["ready-true-after-failed-run"]++
					}
				})
			}
			w.Stop()
		}, Check: func(x *vrt.Sched, w *World) []Finding {
			var fs []Finding
			if v.inUse && x.Deadlock && w.RunDone && w.StopDone == 0 {
				for _, l := range x.Log {
					if strings.Contains(l, "stop-called") {
						return []Finding{{"C11", "Stop never returns after Run could not listen", strings.Join(x.Blocked, " ")}}
					}
				}
			}
			if v.inUse {
				if w.RunDone && w.RunErr == nil {
					fs = append(fs, Finding{"C17", "Run returns nil although the port is already in use", ""})
				}
				if w.Notes["ready-true"] > 0 || w.Notes["ready-true-after-failed-run"] > 0 {
					fs = append(fs, Finding{"C17", "Ready reports true although Run could not listen", fmt.Sprintf("%v", w.Notes)})
				}
				return fs
			}
			if w.Notes["dial-failed"] > 0 {
				fs = append(fs, Finding{"C17", "Ready reports true before the listening socket is bound (a connection attempt fails)", fmt.Sprintf("%v", x.Log)})
			}
			if w.Notes["ready-true"] > 0 && w.Notes["served"] == 0 && w.Notes["dial-failed"] == 0 && !x.Deadlock {
				fs = append(fs, Finding{"C17", "a connection made after Ready reported true is not served", fmt.Sprintf("%v", w.Notes)})
			}
			return fs
		}})
	}

	// ---------------------------------------------------------------- C15: test directory handlers || Set* / getters
	type dirOp struct {
		name string
		fn   func(d *testdirectory.Directory, t testdirectory.TestingT)
	}
	dirOps := []dirOp{
		{"SetUsers", func(d *testdirectory.Directory, t testdirectory.TestingT) {
			d.SetUsers(testdirectory.NewUsers(t, []string{"carol"})...)
		}},
		{"SetGroups", func(d *testdirectory.Directory, t testdirectory.TestingT) {
			d.SetGroups(testdirectory.NewGroup(t, "ops", []string{"carol"}))
		}},
		{"SetControls", func(d *testdirectory.Directory, t testdirectory.TestingT) {
			c, _ := gldap.NewControlString("1.2.3")
			d.SetControls(c)
		}},
		{"SetTokenGroups", func(d *testdirectory.Directory, t testdirectory.TestingT) {
			d.SetTokenGroups(map[string][]*gldap.Entry{"S-1-1": {testdirectory.NewGroup(t, "tg", nil)}})
		}},
		{"SetAllowAnonymousBind", func(d *testdirectory.Directory, t testdirectory.TestingT) { d.SetAllowAnonymousBind(true) }},
		{"Users", func(d *testdirectory.Directory, t testdirectory.TestingT) { _ = d.Users() }},
		{"Groups", func(d *testdirectory.Directory, t testdirectory.TestingT) { _ = d.Groups() }},
		{"Controls", func(d *testdirectory.Directory, t testdirectory.TestingT) { _ = d.Controls() }},
		{"TokenGroups", func(d *testdirectory.Directory, t testdirectory.TestingT) { _ = d.TokenGroups() }},
		{"AllowAnonymousBind", func(d *testdirectory.Directory, t testdirectory.TestingT) { _ = d.AllowAnonymousBind() }},
	}
	reqs := []struct {
		name string
		b    func() []byte
	}{
		{"bind", func() []byte {
			return (&codec.Req{Op: "bind", MsgID: 1, Version: 3, DN: "cn=alice,ou=people,dc=example,dc=org", Password: "password"}).Bytes()
		}},
		{"bind-anonymous", func() []byte {
			return (&codec.Req{Op: "bind", MsgID: 1, Version: 3, DN: "", Password: ""}).Bytes()
		}},
		{"search-users", func() []byte {
			return (&codec.Req{Op: "search", MsgID: 1, DN: testdirectory.DefaultUserDN, Scope: 2, FilterBER: codec.Cons(codec.Context, 3, codec.Octet("cn"), codec.Octet("alice")).Bytes()}).Bytes()
		}},
		{"search-groups", func() []byte {
			return (&codec.Req{Op: "search", MsgID: 1, DN: testdirectory.DefaultGroupDN, Scope: 2, FilterBER: codec.Cons(codec.Context, 3, codec.Octet("cn"), codec.Octet("admin")).Bytes()}).Bytes()
		}},
		{"search-generic", func() []byte {
			return (&codec.Req{Op: "search", MsgID: 1, DN: "cn=alice,ou=people,dc=example,dc=org", Scope: 0, FilterBER: codec.CtxPrim(7, "objectClass").Bytes()}).Bytes()
		}},
		{"modify", func() []byte {
			return (&codec.Req{Op: "modify", MsgID: 1, DN: "cn=alice,ou=people,dc=example,dc=org", Changes: []codec.Change{{Op: 0, Type: "description", Vals: []string{"d"}}}}).Bytes()
		}},
		{"add", func() []byte {
			return (&codec.Req{Op: "add", MsgID: 1, DN: "cn=dave,ou=people,dc=example,dc=org", Attrs2: []codec.Attr{{Type: "mail", Vals: []string{"d@x"}}}}).Bytes()
		}},
		{"delete", func() []byte {
			return (&codec.Req{Op: "delete", MsgID: 1, DN: "cn=bob,ou=people,dc=example,dc=org"}).Bytes()
		}},
	}
	for _, rq := range reqs {
		for _, op := range dirOps {
			rq, op := rq, op
			reg(&Scn{Name: "dir-" + rq.name + "-vs-" + op.name, Props: []string{"C15"}, Quick: 2, Thor: -1, Body: func() {
				w := NewWorld()
				vrt.PermuteMaps = false
				curSpec = nil
				t := &harnessT{}
				logger := hclog.New(&hclog.LoggerOptions{Level: hclog.Off, Output: w.LogBuf})
				users := testdirectory.NewUsers(t, []string{"alice", "bob"})
				groups := []*gldap.Entry{testdirectory.NewGroup(t, "admin", []string{"alice"})}
				d := testdirectory.VNew(t, logger, testdirectory.WithDefaults(t, &testdirectory.Defaults{Users: users, Groups: groups, AllowAnonymousBind: false}))
				mux, err := d.VMux()
				if err != nil {
					panic(err)
				}
				srv, _ := gldap.NewServer(gldap.WithLogger(logger))
				_ = srv.Router(mux)
				w.Srv, w.Addr = srv, defaultAddr
				w.GoRun(SrvOpts{})
				done := 0
				vrt.GoNamed("c1", func() {
					defer func() { done++ }()
					cl := w.Dial("c1", 0)
					_ = cl.Send(rq.b())
					cl.ReadFrames(1)
					if rq.name[:3] == "sea" {
						cl.ReadFrames(2)
					}
					cl.Close()
				})
				vrt.GoNamed("setter", func() {
					defer func() { done++ }()
					op.fn(d, t)
				})
				vrt.WaitUntil("done", func() bool { return done == 2 })
				w.Stop()
			}})
		}
	}
	// two requests of two clients served concurrently by the directory's own handlers
	pairs := [][2]int{{5, 2}, {5, 4}, {6, 2}, {7, 2}, {5, 0}, {6, 6}, {5, 5}}
	for _, pr := range pairs {
		ra, rb := reqs[pr[0]], reqs[pr[1]]
		reg(&Scn{Name: "dir-" + ra.name + "-vs-" + rb.name, Props: []string{"C15"}, Quick: 2, Thor: 3, Body: func() {
			w := NewWorld()
			vrt.PermuteMaps = false
			curSpec = nil
			t := &harnessT{}
			logger := hclog.New(&hclog.LoggerOptions{Level: hclog.Off, Output: w.LogBuf})
			users := testdirectory.NewUsers(t, []string{"alice", "bob"})
			groups := []*gldap.Entry{testdirectory.NewGroup(t, "admin", []string{"alice"})}
			d := testdirectory.VNew(t, logger, testdirectory.WithDefaults(t, &testdirectory.Defaults{Users: users, Groups: groups}))
			mux, err := d.VMux()
			if err != nil {
				panic(err)
			}
			srv, _ := gldap.NewServer(gldap.WithLogger(logger))
			_ = srv.Router(mux)
			w.Srv, w.Addr = srv, defaultAddr
			w.GoRun(SrvOpts{})
			done := 0
			for i, rq := range []struct {
				name string
				b    func() []byte
			}{ra, rb} {
				rq := rq
				vrt.GoNamed(fmt.Sprintf("c%d", i+1), func() {
					defer func() { done++ }()
					cl := w.Dial(fmt.Sprintf("c%d", i+1), 0)
					_ = cl.Send(rq.b())
					cl.ReadFrames(1)
					if strings.HasPrefix(rq.name, "search") {
						cl.ReadFrames(2)
					}
					cl.Close()
				})
			}
			vrt.WaitUntil("done", func() bool { return done == 2 })
			w.Stop()
		}})
	}
}

type harnessT struct{ errs []string }

func (t *harnessT) Errorf(format string, args ...interface{}) {
	t.errs = append(t.errs, fmt.Sprintf(format, args...))
}
func (t *harnessT) FailNow()             { panic("testdirectory: FailNow") }
func (t *harnessT) Log(a ...interface{}) {}
