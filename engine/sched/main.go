// sched: SCHED worker — exhaustive, preemption-bounded exploration of the transformed gldap code under the
// controlled scheduler (engine/rt), with the happens-before race oracle on every execution.
package main

import (
	"crypto/sha1"
	"encoding/hex"
	"encoding/json"
	"fmt"
	"io"
	"os"
	"os/exec"
	"runtime"
	"runtime/pprof"
	"sort"
	"strings"
	"sync"
	"time"

	"verif/codec"
	"verif/ev"
	vrt "verif/rt"
)

// Finding is an oracle verdict on one execution.
type Finding struct {
	Prop   string
	Key    string
	Detail string
}

// Scn is one closed scenario.
type Scn struct {
	Name    string
	Props   []string // properties whose check explores this scenario
	Body    func()
	Check   func(x *vrt.Sched, w *World) []Finding
	Quick   int // preemption bound (quick); -1 = unbounded
	Thor    int // preemption bound (thorough)
	MaxPts  int
	NoRaces bool
	Spec    *Spec // set for Spec-driven scenarios
}

var scenarios []*Scn

func reg(s *Scn) { scenarios = append(scenarios, s) }

type scnResult struct {
	Name            string            `json:"name"`
	Execs           int               `json:"execs"`
	Steps           int               `json:"steps"`
	States          int               `json:"states"`
	Pruned          int               `json:"pruned"`
	Horizons        int               `json:"horizons"`
	Deadlocks       int               `json:"deadlocks"`
	Crashes         int               `json:"crashes"`
	CapHit          bool              `json:"cap_hit"`
	Inconclusive    bool              `json:"inconclusive"`
	Bound           int               `json:"bound"`
	Outcomes        map[string]int    `json:"outcomes"`
	ClientOutc      map[string]int    `json:"client_outcomes"`
	RealRuns        int               `json:"real_runs"`
	RealInSet       int               `json:"real_in_set"`
	RealOutside     []string          `json:"real_outside"`
	PartialBound    int               `json:"partial_bound"`
	PartialExecs    int               `json:"partial_execs"`
	RealRaces       int               `json:"real_races"`
	RealRaceSamples []string          `json:"real_race_samples"`
	OutcomeSamp     map[string]string `json:"-"`
	Viol            []*ev.Violation   `json:"violations"`
	Sample          []string          `json:"sample_log"`
	SampleSched     []int             `json:"sample_schedule"`
}

type replayDoc struct {
	Scenario string   `json:"scenario"`
	Choices  []int    `json:"choices"`
	Log      []string `json:"log,omitempty"`
}

func hashLog(x *vrt.Sched) string {
	h := sha1.New()
	for _, l := range x.Log {
		h.Write([]byte(l))
		h.Write([]byte{0})
	}
	if x.Deadlock {
		h.Write([]byte(strings.Join(x.Blocked, ",")))
	}
	if x.Crash != nil {
		h.Write([]byte(x.Crash.Value))
	}
	return hex.EncodeToString(h.Sum(nil)[:8])
}

// evaluate runs the oracles on one finished execution and folds the result into res.
func evaluate(prop string, sc *Scn, x *vrt.Sched, choices []int, res *scnResult, idx map[string]*ev.Violation) {
	w, _ := x.Data.(*World)
	res.Outcomes[hashLog(x)]++
	if x.Deadlock {
		res.Deadlocks++
	}
	if x.Crash != nil {
		res.Crashes++
	}
	if res.Sample == nil {
		res.Sample = append([]string(nil), x.Log...)
		res.SampleSched = choices
	}
	report := func(f Finding) {
		if f.Prop != prop && prop != "*" {
			return
		}
		key := f.Key
		if prop == "*" {
			key = f.Prop + ": " + f.Key
		}
		if v, ok := idx[key]; ok {
			v.Count++
			return
		}
		v := &ev.Violation{Key: key, Detail: "[" + sc.Name + "] " + f.Detail, Replay: replayDoc{Scenario: sc.Name, Choices: choices, Log: append([]string(nil), x.Log...)}, Count: 1}
		idx[key] = v
		res.Viol = append(res.Viol, v)
	}
	if x.Horizon {
		return // not a complete execution: oracles on final state do not apply
	}
	if sc.Spec != nil && w != nil && !x.RaceAbort && !x.Deadlock && x.Crash == nil {
		res.ClientOutc[clientOutcome(w)]++
	}
	if x.RaceAbort {
		sc2 := *sc
		sc2.Check = nil
		sc = &sc2
		w = nil // only the race verdicts below apply
	}
	if sc.Check != nil && w != nil {
		for _, f := range sc.Check(x, w) {
			report(f)
		}
	}
	if !x.RaceAbort {
		for _, f := range universal(sc, x, w) {
			report(f)
		}
	}
	if !sc.NoRaces {
		var keys []string
		for k := range x.Races {
			keys = append(keys, k)
		}
		sort.Strings(keys)
		for _, k := range keys {
			r := x.Races[k]
			report(Finding{Prop: "C15", Key: "race " + k, Detail: fmt.Sprintf("unordered conflicting accesses to %s: %s || %s", r.Loc, r.A, r.B)})
			extra := ""
			if sc.Spec != nil && sc.Spec.WriterRaceIs != "" && strings.HasPrefix(r.Loc, "bufio.Writer") {
				extra = sc.Spec.WriterRaceIs
			}
			for _, p := range strings.Fields(raceOwner(r.Loc) + " " + raceOwnerBySite(r.A+" "+r.B) + " " + extra) {
				report(Finding{Prop: p, Key: "race " + k, Detail: fmt.Sprintf("unordered conflicting accesses to %s: %s || %s", r.Loc, r.A, r.B)})
			}
		}
	}
}

// raceOwner: a SCHED check other than C15 fails only on races on the mechanism its property names.
// raceOwnerBySite: package-level state reached from the control decoder belongs to C14.
func raceOwnerBySite(sites string) string {
	if strings.Contains(sites, "gldap.decodeControl") || strings.Contains(sites, "gldap.(*Control") {
		return "C14"
	}
	return ""
}

func raceOwner(loc string) string {
	switch {
	case strings.HasPrefix(loc, "bufio.Writer"), strings.HasPrefix(loc, "ResponseWriter."):
		return "C05 C04"
	case loc == "conn.reader" || loc == "conn.writer" || loc == "conn.netConn" || strings.HasPrefix(loc, "bufio.Reader"):
		return "C13"
	case loc == "sync.WaitGroup":
		return "C12"
	case strings.HasPrefix(loc, "Control"):
		return "C14" // a control value handed to several responses is only ever read by gldap
	case strings.HasPrefix(loc, "local testdirectory.(*Directory).handleBind."):
		return "C19" // state shared between binds in flight: one bind is judged by another one's credentials
	case vrt.IsMapLoc(loc) && !strings.HasPrefix(loc, "Directory."):
		// unordered conflicting accesses to a map are detected by the Go runtime, which then kills the
		// process ("fatal error: concurrent map writes"): recover() cannot catch that
		return "C07"
	}
	return ""
}

func boundOf(sc *Scn, tier string) int {
	if tier == "thorough" {
		return sc.Thor
	}
	return sc.Quick
}

func scenariosFor(prop string) []*Scn {
	var out []*Scn
	for _, s := range scenarios {
		for _, p := range s.Props {
			if p == prop || prop == "C15" && p != "-" {
				out = append(out, s)
				break
			}
		}
	}
	return out
}

type job struct {
	Mode     string  `json:"mode"` // "" = explore the prefixes; "expand" = breadth-first expansion from the root
	Want     int     `json:"want"`
	Prop     string  `json:"prop"`
	Scenario string  `json:"scenario"`
	Bound    int     `json:"bound"`
	Prefixes [][]int `json:"prefixes"`
	Deadline int64   `json:"deadline_unix"`
}

func newRes(sc *Scn, bound int) *scnResult {
	return &scnResult{Name: sc.Name, Bound: bound, Outcomes: map[string]int{}, ClientOutc: map[string]int{}}
}

func runJob(j *job) *scnResult {
	sc := findScn(j.Scenario)
	res := newRes(sc, j.Bound)
	idx := map[string]*ev.Violation{}
	e := &vrt.Explorer{Body: sc.Body, Bound: j.Bound, Prune: true, MaxPts: sc.MaxPts}
	if j.Deadline > 0 {
		e.Deadline = time.Unix(j.Deadline, 0)
	}
	e.OnExec = func(x *vrt.Sched, ch []int) { evaluate(j.Prop, sc, x, ch, res, idx) }
	for _, p := range j.Prefixes {
		e.Explore(p)
	}
	res.Execs, res.Steps, res.States, res.Pruned, res.Horizons, res.CapHit = e.Execs, e.Steps, e.States, e.Pruned, e.Horizons, e.CapHit
	return res
}

func findScn(name string) *Scn {
	for _, s := range scenarios {
		if s.Name == name {
			return s
		}
	}
	fmt.Fprintf(os.Stderr, "sched: unknown scenario %q\n", name)
	os.Exit(2)
	return nil
}

func merge(dst, src *scnResult, idx map[string]*ev.Violation) {
	dst.Execs += src.Execs
	dst.Steps += src.Steps
	dst.States += src.States
	dst.Pruned += src.Pruned
	dst.Horizons += src.Horizons
	dst.Deadlocks += src.Deadlocks
	dst.Crashes += src.Crashes
	dst.CapHit = dst.CapHit || src.CapHit
	dst.Inconclusive = dst.Inconclusive || src.Inconclusive
	for k, v := range src.Outcomes {
		dst.Outcomes[k] += v
	}
	for k, v := range src.ClientOutc {
		dst.ClientOutc[k] += v
	}
	for _, v := range src.Viol {
		if o, ok := idx[v.Key]; ok {
			o.Count += v.Count
			if rd, ok := v.Replay.(map[string]interface{}); ok {
				// keep the shorter schedule as the witness
				if od, ok := o.Replay.(map[string]interface{}); ok {
					if a, b := rd["choices"], od["choices"]; a != nil && b != nil && len(a.([]interface{})) < len(b.([]interface{})) {
						o.Replay, o.Detail = v.Replay, v.Detail
					}
				}
			}
		} else {
			idx[v.Key] = v
			dst.Viol = append(dst.Viol, v)
		}
	}
	if dst.Sample == nil {
		dst.Sample, dst.SampleSched = src.Sample, src.SampleSched
	}
}

func main() {
	if len(os.Args) < 2 {
		fmt.Fprintln(os.Stderr, "usage: sched <ID> | sched replay <file> | sched list")
		os.Exit(2)
	}
	registerAll()
	go watchdog()
	switch os.Args[1] {
	case "list":
		for _, s := range scenarios {
			fmt.Println(s.Name, s.Props, s.Quick, s.Thor)
		}
		return
	case "replay":
		os.Exit(replay(os.Args[2]))
	case "child":
		var j job
		if err := json.NewDecoder(os.Stdin).Decode(&j); err != nil {
			fmt.Fprintln(os.Stderr, err)
			os.Exit(2)
		}
		// the code under test may print to stdout (the test directory does): the result goes to its own descriptor
		out := os.NewFile(3, "result")
		if dn, err := os.OpenFile(os.DevNull, os.O_WRONLY, 0); err == nil {
			os.Stdout = dn
		}
		if j.Mode == "expand" {
			json.NewEncoder(out).Encode(runExpand(&j))
			return
		}
		json.NewEncoder(out).Encode(runJob(&j))
		return
	case "real":
		realStdout = os.Stdout
		if dn, err := os.OpenFile(os.DevNull, os.O_WRONLY, 0); err == nil {
			os.Stdout = dn
		}
		os.Exit(runReal(os.Args[2], os.Args[3]))
	case "real-unused": // sched real <scenario> <prop> : one free-running execution on real sockets (real-socket build only)
		os.Exit(runReal(os.Args[2], os.Args[3]))
	case "all": // sched all <bound> : every scenario in-process, all oracles (debugging)
		var b int
		fmt.Sscanf(os.Args[2], "%d", &b)
		for _, sc := range scenarios {
			if len(os.Args) > 3 && !strings.Contains(sc.Name, os.Args[3]) {
				continue
			}
			t0 := time.Now()
			res := runJob(&job{Prop: "*", Scenario: sc.Name, Bound: b, Prefixes: [][]int{nil}, Deadline: time.Now().Add(8 * time.Second).Unix()})
			fmt.Printf("%-45s b=%d execs=%-7d states=%-7d outc=%-4d dl=%-5d crash=%-4d hz=%d cap=%v %.1fs\n", sc.Name, b, res.Execs, res.States, len(res.Outcomes), res.Deadlocks, res.Crashes, res.Horizons, res.CapHit, time.Since(t0).Seconds())
			for _, v := range res.Viol {
				d := v.Detail
				if len(d) > 300 {
					d = d[:300]
				}
				fmt.Printf("    VIOL x%d %s\n         %s\n", v.Count, v.Key, d)
			}
		}
		return
	case "one": // sched one <scenario> <bound> : in-process exploration (debugging)
		sc := findScn(os.Args[2])
		var b int
		fmt.Sscanf(os.Args[3], "%d", &b)
		prop := "C15"
		if len(os.Args) > 4 {
			prop = os.Args[4]
		}
		if pf := os.Getenv("VERIF_PROF"); pf != "" {
			f, _ := os.Create(pf)
			pprof.StartCPUProfile(f)
			defer pprof.StopCPUProfile()
		}
		t0 := time.Now()
		res := runJob(&job{Prop: prop, Scenario: sc.Name, Bound: b, Prefixes: [][]int{nil}})
		fmt.Printf("%s bound=%d execs=%d pruned=%d states=%d steps=%d outcomes=%d deadlocks=%d crashes=%d horizons=%d %.1fs\n", sc.Name, b, res.Execs, res.Pruned, res.States, res.Steps, len(res.Outcomes), res.Deadlocks, res.Crashes, res.Horizons, time.Since(t0).Seconds())
		for _, l := range res.Sample {
			fmt.Println("   ", l)
		}
		for _, v := range res.Viol {
			fmt.Printf("VIOL x%d %s\n   %s\n", v.Count, v.Key, v.Detail)
		}
		return
	}
	prop := os.Args[1]
	tier := ev.Tier()
	scs := scenariosFor(prop)
	if len(scs) == 0 {
		fmt.Fprintf(os.Stderr, "sched: no scenario for %s\n", prop)
		os.Exit(2)
	}
	r := ev.New(prop, tier, "sched")
	budget := 150 * time.Second
	if tier == "thorough" {
		budget = 20 * time.Minute
	}
	if s := os.Getenv("VERIF_BUDGET_S"); s != "" {
		var n int
		fmt.Sscanf(s, "%d", &n)
		budget = time.Duration(n) * time.Second
	}
	if prop == "C15" && tier != "thorough" && os.Getenv("VERIF_BUDGET_S") == "" {
		budget = 300 * time.Second // C15 runs every scenario of every property
	}
	start := time.Now()
	deadline := start.Add(budget)
	// Phase 1: scenarios in parallel, one child process per (scenario, bound); a bound that does not finish within
	// its slice is left to phase 2. Phase 2: the remaining scenarios one after the other, each bound sharded
	// over all cores, with an equal share of the remaining time (unused time rolls over).
	type scnState struct {
		sc        *Scn
		total     *scnResult
		idx       map[string]*ev.Violation
		bounds    []int
		next      int
		completed int
		lastExecs int
		done      bool
	}
	var sts []*scnState
	for _, sc := range scs {
		B := boundOf(sc, tier)
		st := &scnState{sc: sc, total: newRes(sc, B), idx: map[string]*ev.Violation{}, completed: -2, lastExecs: -1}
		switch {
		case tier == "thorough":
			// at least the scenario's bound, then as deep as the time allows, finally every schedule
			st.bounds = []int{0, 1, 2, 3, 4, 5, 6, 8, -1}
			if B == 0 {
				st.bounds = []int{0}
			}
		case B < 0:
			st.bounds = []int{0, 1, 2, -1}
		default:
			for b := 0; b <= B; b++ {
				st.bounds = append(st.bounds, b)
			}
		}
		sts = append(sts, st)
	}
	// absorb merges the result of one completed bound; reports whether the scenario is finished
	absorb := func(st *scnState, b int, res *scnResult) {
		total := st.total
		// the last completed bound's numbers are the scenario's (lower bounds are subsets)
		total.Execs, total.Steps, total.States, total.Pruned, total.Horizons, total.Deadlocks, total.Crashes = 0, 0, 0, 0, 0, 0, 0
		total.Outcomes = map[string]int{}
		total.ClientOutc = map[string]int{}
		merge(total, res, st.idx)
		st.completed = b
		st.next++
		if b >= 2 && res.Execs > 0 && res.Pruned == 0 && res.Execs == st.lastExecs {
			st.completed = -1 // a higher bound found no new schedule: the tree is exhausted, every schedule was explored
			st.done = true
		}
		st.lastExecs = res.Execs
		if st.next >= len(st.bounds) {
			st.done = true
		}
	}
	partial := func(st *scnState, b int, res *scnResult) {
		// this bound did not complete: keep the numbers of the last completed bound, remember the cap
		for _, v := range res.Viol {
			if _, ok := st.idx[v.Key]; !ok {
				st.idx[v.Key] = v
				st.total.Viol = append(st.total.Viol, v)
			}
		}
		st.total.CapHit = true
		st.total.Inconclusive = st.total.Inconclusive || res.Inconclusive
		st.total.PartialBound, st.total.PartialExecs = b, res.Execs
	}
	phase1End := start.Add(budget * 6 / 10)
	perChild := 20 * time.Second
	if tier == "thorough" {
		phase1End = start.Add(budget * 4 / 10)
		perChild = 45 * time.Second
	}
	{
		var wg sync.WaitGroup
		queue := make(chan *scnState, len(sts))
		for _, st := range sts {
			queue <- st
		}
		close(queue)
		for w := 0; w < runtime.NumCPU(); w++ {
			wg.Add(1)
			go func() {
				defer wg.Done()
				for st := range queue {
					for !st.done {
						b := st.bounds[st.next]
						d := time.Now().Add(perChild)
						if d.After(phase1End) {
							d = phase1End
						}
						if !time.Now().Before(d) {
							break
						}
						res := exploreSingle(prop, st.sc, b, d)
						if res.CapHit {
							if res.Inconclusive {
								partial(st, b, res)
							}
							break // left to phase 2 (sharded)
						}
						absorb(st, b, res)
					}
				}
			}()
		}
		wg.Wait()
	}
	var rest []*scnState
	for _, st := range sts {
		if !st.done {
			rest = append(rest, st)
		}
	}
	for si, st := range rest {
		left := len(rest) - si
		scDeadline := time.Now().Add(time.Until(deadline) / time.Duration(left))
		for !st.done {
			b := st.bounds[st.next]
			if time.Now().After(scDeadline) {
				st.total.CapHit = true
				break
			}
			res := exploreSharded(prop, st.sc, b, scDeadline)
			if res.CapHit {
				partial(st, b, res)
				break
			}
			absorb(st, b, res)
		}
	}
	var all []*scnResult
	exhaustive := true
	for _, st := range sts {
		total, sc := st.total, st.sc
		total.Bound = st.completed
		if st.done {
			total.CapHit = total.CapHit && total.Inconclusive
		}
		if (total.CapHit && tier != "thorough") || total.Horizons > 0 || total.Inconclusive || st.completed == -2 {
			exhaustive = false
		}
		if tier == "thorough" && st.completed != -1 {
			exhaustive = false // thorough aims at all schedules; anything less is reported as a bound, not as exhaustive
		}
		realWG.Add(1)
		go func(sc *Scn, total *scnResult) {
			defer realWG.Done()
			realSem <- struct{}{}
			defer func() { <-realSem }()
			realReplays(prop, sc, total, nil)
		}(sc, total)
		all = append(all, total)
		for _, v := range total.Viol {
			for i := 0; i < v.Count; i++ {
				r.Report(v.Key, v.Detail, v.Replay)
			}
		}
	}
	realWG.Wait()
	// evidence
	var execs, steps, states, outcomes, realRuns, realIn, realRaces int
	var per []map[string]interface{}
	var samples []interface{}
	for _, t := range all {
		execs += t.Execs
		steps += t.Steps
		states += t.States
		outcomes += len(t.Outcomes)
		bc := interface{}(t.Bound)
		if t.Bound == -1 {
			bc = "unbounded"
		} else if t.Bound == -2 {
			bc = "none"
		}
		per = append(per, map[string]interface{}{"scenario": t.Name, "executions": t.Execs, "scheduling_steps": t.Steps, "distinct_states": t.States, "pruned_prefixes": t.Pruned, "distinct_observation_logs": len(t.Outcomes), "deviation_bound_completed": bc, "cap_hit": t.CapHit, "next_bound_started_but_not_completed": t.PartialBound, "executions_in_the_uncompleted_bound": t.PartialExecs, "inconclusive_worker_failure": t.Inconclusive, "horizon_hits": t.Horizons, "executions_ending_in_deadlock": t.Deadlocks, "executions_with_thread_panic": t.Crashes, "distinct_client_visible_outcomes": len(t.ClientOutc), "real_stack_replays": t.RealRuns, "real_stack_replays_with_outcome_in_model_set": t.RealInSet, "real_stack_outcomes_outside_explored_set": t.RealOutside, "go_race_detector_reports_in_real_stack_replays": t.RealRaces, "go_race_detector_report_samples": t.RealRaceSamples})
		realRaces += t.RealRaces
		realRuns += t.RealRuns
		realIn += t.RealInSet
		if len(samples) < 4 {
			samples = append(samples, map[string]interface{}{"scenario": t.Name, "schedule": t.SampleSched, "observation_log": t.Sample})
		}
	}
	if states == 0 {
		states = execs
	}
	r.Cov["states"] = states
	r.Cov["transitions"] = steps
	r.Cov["traces_validated_against_impl"] = execs
	r.Cov["evaluations"] = execs
	r.Cov["distinct_nontrivial"] = outcomes
	r.Cov["rule"] = "every schedule of each closed scenario within the deviation bound (delay bounding: a deviation is any scheduling choice other than the default 'keep running the current thread, else the enabled thread with the lowest id'; bounds 0,1,..,B are completed in order; 'unbounded' = all schedules) is executed on the transformed real gldap code under the controlled scheduler; happens-before-equivalent prefixes are pruned by fingerprint; states = distinct HB fingerprints at choice points, transitions = scheduling steps, distinct_nontrivial = distinct observation logs (order of handler/close/OnClose/Stop/Run events) summed over scenarios"
	r.Cov["samples"] = samples
	r.Cov["scenarios"] = per
	r.Cov["real_stack_replays"] = map[string]int{"runs_of_scenarios_on_untransformed_gldap_over_real_tcp": realRuns, "client_visible_outcome_found_in_the_model_explored_set": realIn, "go_race_detector_reports_with_a_gldap_frame_(thorough_tier_builds_the_replayer_with_-race)": realRaces}
	r.Cov["exhaustive"] = exhaustive
	r.Assume = []string{
		"code between two scheduling points runs atomically (sound for data-race-free code; the vector-clock race oracle runs on every execution)",
		"sockets, clock, context and sync primitives are the models of engine/shim (conformance-tested against the real ones); crypto/tls is the real library over the modelled sockets",
		"virtual time advances only when no thread can run",
	}
	if path := os.Getenv("VERIF_CONFORM"); path != "" {
		if b, err := os.ReadFile(path); err == nil {
			var m struct {
				Histories     int `json:"histories"`
				Disagreements int `json:"disagreements"`
			}
			if json.Unmarshal(b, &m) == nil {
				r.Cov["shim_conformance"] = map[string]int{"micro_histories_run_on_model_and_on_real_sockets": m.Histories, "disagreements": m.Disagreements}
			}
		}
	}
	if path := os.Getenv("VERIF_SUMMARY"); path != "" {
		b, _ := json.Marshal(r.Cov)
		os.WriteFile(path, b, 0o644)
	}
	os.Exit(r.Finish("model_checking"))
}

// exploreSharded expands the tree in-process until there are enough pending prefixes, then explores the
// subtrees in child processes.
type expandOut struct {
	Res     *scnResult `json:"res"`
	Pending [][]int    `json:"pending"`
	NonDet  string     `json:"nondeterministic,omitempty"`
}

// runExpand (child): determinism self-check on the default schedule, then breadth-first expansion.
func runExpand(j *job) *expandOut {
	sc := findScn(j.Scenario)
	a := vrt.Run(nil, sc.Body, func(s *vrt.Sched) { s.MaxPts = maxPts(sc) })
	b := vrt.Run(nil, sc.Body, func(s *vrt.Sched) { s.MaxPts = maxPts(sc) })
	if hashLog(a) != hashLog(b) || len(a.Trace) != len(b.Trace) {
		return &expandOut{NonDet: fmt.Sprintf("default schedule run twice gives different observations:\n  %v\n  %v", a.Log, b.Log)}
	}
	total := newRes(sc, j.Bound)
	idx := map[string]*ev.Violation{}
	e := &vrt.Explorer{Body: sc.Body, Bound: j.Bound, Prune: false, MaxPts: sc.MaxPts}
	if j.Deadline > 0 {
		e.Deadline = time.Unix(j.Deadline, 0)
	}
	e.OnExec = func(x *vrt.Sched, ch []int) { evaluate(j.Prop, sc, x, ch, total, idx) }
	pending := e.Expand(j.Want)
	total.Execs, total.Steps, total.Horizons, total.CapHit = e.Execs, e.Steps, e.Horizons, e.CapHit
	return &expandOut{Res: total, Pending: pending}
}

func maxPts(sc *Scn) int {
	if sc.MaxPts > 0 {
		return sc.MaxPts
	}
	return 200000
}

func runChild(j *job, out interface{}) error {
	cmd := exec.Command(os.Args[0], "child")
	in, _ := json.Marshal(j)
	cmd.Stdin = strings.NewReader(string(in))
	cmd.Stderr = os.Stderr
	cmd.Env = append(os.Environ(), "GOMAXPROCS=1")
	pr, pw, err := os.Pipe()
	if err != nil {
		return err
	}
	cmd.ExtraFiles = []*os.File{pw}
	if err := cmd.Start(); err != nil {
		pw.Close()
		pr.Close()
		return err
	}
	pw.Close()
	b, _ := io.ReadAll(pr)
	pr.Close()
	if err := cmd.Wait(); err != nil {
		return err
	}
	return json.Unmarshal(b, out)
}

// exploreSharded: a child process expands the tree until there are enough pending prefixes, then the
// subtrees are explored in parallel child processes. The parent never executes scenario code itself, so
// a scenario that blocks natively (watchdog) or crashes only makes its own subtrees inconclusive.
// exploreSingle explores one bound of a scenario in one child process (best pruning, no parallelism).
func exploreSingle(prop string, sc *Scn, bound int, deadline time.Time) *scnResult {
	total := newRes(sc, bound)
	idx := map[string]*ev.Violation{}
	var eo expandOut
	if err := runChild(&job{Mode: "expand", Want: 1 << 30, Prop: prop, Scenario: sc.Name, Bound: bound, Deadline: deadline.Unix()}, &eo); err != nil {
		fmt.Fprintf(os.Stderr, "sched: scenario %s (bound %d): worker failed (%v): inconclusive\n", sc.Name, bound, err)
		total.CapHit = true
		total.Inconclusive = true
		return total
	}
	if eo.NonDet != "" {
		fmt.Fprintf(os.Stderr, "sched: scenario %s is not deterministic under replay (checker error): %s\n", sc.Name, eo.NonDet)
		os.Exit(2)
	}
	merge(total, eo.Res, idx)
	return total
}

func exploreSharded(prop string, sc *Scn, bound int, deadline time.Time) *scnResult {
	total := newRes(sc, bound)
	idx := map[string]*ev.Violation{}
	ncpu := runtime.NumCPU()
	want := 4 * ncpu
	if bound >= 0 && bound <= 1 {
		want = 1 << 30 // small: one process
	}
	var eo expandOut
	if err := runChild(&job{Mode: "expand", Want: want, Prop: prop, Scenario: sc.Name, Bound: bound, Deadline: deadline.Unix()}, &eo); err != nil {
		fmt.Fprintf(os.Stderr, "sched: scenario %s (bound %d): worker failed (%v): inconclusive\n", sc.Name, bound, err)
		total.CapHit = true
		total.Inconclusive = true
		return total
	}
	if eo.NonDet != "" {
		fmt.Fprintf(os.Stderr, "sched: scenario %s is not deterministic under replay (checker error): %s\n", sc.Name, eo.NonDet)
		os.Exit(2)
	}
	merge(total, eo.Res, idx)
	pending := eo.Pending
	if len(pending) == 0 || total.CapHit {
		return total
	}
	// distribute round-robin into 2*ncpu jobs
	nj := 2 * ncpu
	if nj > len(pending) {
		nj = len(pending)
	}
	jobs := make([]*job, nj)
	for i := range jobs {
		jobs[i] = &job{Prop: prop, Scenario: sc.Name, Bound: bound, Deadline: deadline.Unix()}
	}
	for i, p := range pending {
		jobs[i%nj].Prefixes = append(jobs[i%nj].Prefixes, p)
	}
	var mu sync.Mutex
	var wg sync.WaitGroup
	sem := make(chan struct{}, ncpu)
	for _, j := range jobs {
		wg.Add(1)
		go func(j *job) {
			defer wg.Done()
			sem <- struct{}{}
			defer func() { <-sem }()
			var res scnResult
			err := runChild(j, &res)
			mu.Lock()
			defer mu.Unlock()
			if err != nil {
				// a worker that died (watchdog, OOM) makes the run inconclusive for its subtrees, never a violation
				fmt.Fprintf(os.Stderr, "sched: worker for %s failed (%v): subtrees inconclusive\n", sc.Name, err)
				total.CapHit = true
				total.Inconclusive = true
				return
			}
			merge(total, &res, idx)
		}(j)
	}
	wg.Wait()
	return total
}

func replay(path string) int {
	b, err := os.ReadFile(path)
	if err != nil {
		fmt.Fprintln(os.Stderr, err)
		return 2
	}
	var doc struct {
		Property string    `json:"property"`
		Key      string    `json:"key"`
		Replay   replayDoc `json:"replay"`
	}
	if err := json.Unmarshal(b, &doc); err != nil {
		fmt.Fprintln(os.Stderr, err)
		return 2
	}
	sc := findScn(doc.Replay.Scenario)
	hit := 0
	for i := 0; i < 5; i++ {
		x := vrt.Run(doc.Replay.Choices, sc.Body, func(s *vrt.Sched) { s.MaxPts = sc.MaxPts })
		if x.Diverged != "" {
			fmt.Println("replay:", x.Diverged)
			return 2
		}
		res := newRes(sc, 0)
		idx := map[string]*ev.Violation{}
		evaluate(doc.Property, sc, x, doc.Replay.Choices, res, idx)
		if i == 0 {
			for _, l := range x.Log {
				fmt.Println("   ", l)
			}
			if x.Deadlock {
				fmt.Println("    DEADLOCK", x.Blocked)
			}
			if x.Crash != nil {
				fmt.Println("    CRASH", x.Crash.Thread, x.Crash.Value, x.Crash.Site)
			}
		}
		if _, ok := idx[doc.Key]; ok {
			hit++
		}
	}
	fmt.Printf("replay: violation %q reproduced %d/5 times\n", doc.Key, hit)
	if hit == 5 {
		fmt.Printf("VIOLATION property=%s replay=%s\n", doc.Property, path)
		return 1
	}
	if hit == 0 {
		return 0
	}
	return 2
}

// watchdog: a thread that blocks natively (something the transformer could not hook) stalls the scheduler.
// The worker then exits with status 3: its subtrees are inconclusive.
func watchdog() {
	for {
		time.Sleep(2 * time.Second)
		if vrt.Current() == nil {
			continue
		}
		last := vrt.LastActivity.Load()
		if last != 0 && time.Since(time.Unix(0, last)) > 10*time.Second {
			fmt.Fprintln(os.Stderr, "sched: watchdog: no scheduling activity for 10 s (native blocking?) - inconclusive")
			if os.Getenv("VERIF_DEBUG") != "" {
				buf := make([]byte, 1<<20)
				os.Stderr.Write(buf[:runtime.Stack(buf, true)])
			}
			os.Exit(3)
		}
	}
}

// clientOutcome is what the clients of an execution could observe, in a schedule-independent form.
func clientOutcome(w *World) string {
	var parts []string
	for _, c := range w.Clients {
		s := c.Name + ":"
		if c.DialErr != nil {
			s += "dial-failed"
		}
		frames, _, _ := codec.Frames(c.Got)
		for _, f := range frames {
			if r, err := codec.ParseResponse(f); err == nil {
				s += fmt.Sprintf(" %d/%d", r.MsgID, r.Tag)
			} else {
				s += " ?"
			}
		}
		if c.EOF {
			s += " EOF"
		}
		if c.ReadErr != nil {
			s += " ERR"
		}
		parts = append(parts, s)
	}
	sort.Strings(parts)
	var ids []int
	ids = append(ids, w.OnClose...)
	sort.Ints(ids)
	var disp []int
	for _, d := range w.Dispatch {
		disp = append(disp, int(d.MsgID))
	}
	sort.Ints(disp)
	return strings.Join(parts, " | ") + fmt.Sprintf(" || onclose=%v dispatched=%v", ids, disp)
}

var realWG sync.WaitGroup
var realSem = make(chan struct{}, 6)

type realOut struct {
	Outcome  string    `json:"outcome"`
	Findings []Finding `json:"findings"`
	Log      []string  `json:"log"`
	Hung     bool      `json:"hung"`
}

// runReal (real-socket build): run the scenario once, free-running, on the untransformed gldap over real TCP.
func runReal(name, prop string) int {
	sc := findScn(name)
	if sc.Spec == nil {
		return 2
	}
	done := make(chan struct{})
	go func() { sc.Body(); close(done) }()
	out := realOut{}
	select {
	case <-done:
	case <-time.After(60 * time.Second):
		out.Hung = true
	}
	if !out.Hung && !vrt.FreeWait(30*time.Second) {
		out.Hung = true
	}
	w, _ := vrt.FreeData().(*World)
	x := &vrt.Sched{Log: vrt.FreeLog(), Data: w, Races: map[string]*vrt.Race{}}
	out.Log = x.Log
	if w != nil && !out.Hung {
		vrt.Atomic(func() {
			out.Outcome = clientOutcome(w)
			if sc.Check != nil {
				out.Findings = append(out.Findings, sc.Check(x, w)...)
			}
			out.Findings = append(out.Findings, universal(sc, x, w)...)
		})
	}
	json.NewEncoder(realStdout).Encode(out)
	return 0
}

var realStdout = os.Stdout

// realReplays runs the scenario a few times on the real stack (when the real-socket worker was built) and
// compares the client-visible outcome with the set the model exploration produced. Evidence only.
func realReplays(prop string, sc *Scn, total *scnResult, idx map[string]*ev.Violation) {
	bin := os.Getenv("VERIF_REAL_WORKER")
	if bin == "" || sc.Spec == nil || !sc.Spec.realOK() || len(total.ClientOutc) == 0 {
		return
	}
	n := 3
	if prop == "C15" {
		n = 1
	}
	for i := 0; i < n; i++ {
		cmd := exec.Command(bin, "real", sc.Name, prop)
		var errb strings.Builder
		cmd.Stderr = &errb
		cmd.Env = append(os.Environ(), "GORACE=halt_on_error=0 exitcode=0")
		b, err := cmd.Output()
		// a -race build (thorough tier) reports data races of the free-running execution on stderr
		for _, rep := range strings.Split(errb.String(), "WARNING: DATA RACE")[1:] {
			if strings.Contains(rep, "verif/gldapx") {
				total.RealRaces++
				if len(total.RealRaceSamples) < 2 {
					lines := strings.Split(rep, "\n")
					if len(lines) > 14 {
						lines = lines[:14]
					}
					total.RealRaceSamples = append(total.RealRaceSamples, strings.Join(lines, "\n"))
				}
			}
		}
		var ro realOut
		if err != nil || json.Unmarshal(b, &ro) != nil || ro.Hung {
			continue
		}
		total.RealRuns++
		if _, ok := total.ClientOutc[ro.Outcome]; ok {
			total.RealInSet++
		} else if len(total.RealOutside) < 3 {
			total.RealOutside = append(total.RealOutside, ro.Outcome)
		}
	}
}
