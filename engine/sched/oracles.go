package main

import (
	"bytes"
	"fmt"
	"regexp"
	"sort"
	"strings"
	"time"

	"verif/codec"
	vrt "verif/rt"
	"verif/shim/vnet"
)

func secs(n int) time.Duration { return time.Duration(n) * time.Second }

var digitsRe = regexp.MustCompile(`[0-9]+`)

func norm(s string) string {
	s = digitsRe.ReplaceAllString(s, "N")
	if len(s) > 140 {
		s = s[:140]
	}
	return s
}

type evt struct {
	pos  int
	kind string
	conn int
	req  int
	msg  int64
	raw  string
}

func parseLog(log []string) []evt {
	var out []evt
	for i, l := range log {
		e := evt{pos: i, raw: l}
		switch {
		case strings.HasPrefix(l, "h-enter "):
			e.kind = "h-enter"
			fmt.Sscanf(l, "h-enter conn=%d req=%d msg=%d", &e.conn, &e.req, &e.msg)
		case strings.HasPrefix(l, "h-exit "):
			e.kind = "h-exit"
			fmt.Sscanf(l, "h-exit conn=%d req=%d", &e.conn, &e.req)
		case strings.HasPrefix(l, "h-unbind "):
			e.kind = "h-unbind"
			fmt.Sscanf(l, "h-unbind conn=%d req=%d", &e.conn, &e.req)
		case strings.HasPrefix(l, "onclose-enter "):
			e.kind = "onclose-enter"
			fmt.Sscanf(l, "onclose-enter %d", &e.conn)
		case strings.HasPrefix(l, "onclose "):
			e.kind = "onclose"
			fmt.Sscanf(l, "onclose %d", &e.conn)
		case strings.HasPrefix(l, "env: server closed "):
			e.kind = "sockclose"
		case strings.HasPrefix(l, "env: accepted "):
			e.kind = "accepted"
		case l == "env: listener closed":
			e.kind = "listener-closed"
		case strings.HasPrefix(l, "stop-returned"):
			e.kind = "stop-returned"
		case l == "stop-called":
			e.kind = "stop-called"
		case strings.HasPrefix(l, "run-returned"):
			e.kind = "run-returned"
		default:
			e.kind = "other"
		}
		out = append(out, e)
	}
	return out
}

// clientOfMsg / reqOfMsg: which connection of the scenario sent a message ID, and as which request
// (message ID 0 is only ever used by the one "unbind0" op of a scenario).
func clientOfMsg(msg int64) int {
	if msg == 0 && curSpec != nil {
		for ci, c := range curSpec.Conns {
			for _, o := range c.Ops {
				if isZeroID(o) {
					return ci
				}
			}
		}
	}
	return int(msg/1000) - 1
}

func reqOfMsg(msg int64) int {
	if msg == 0 && curSpec != nil {
		for _, c := range curSpec.Conns {
			for k, o := range c.Ops {
				if isZeroID(o) {
					return k + 1
				}
			}
		}
	}
	return int(msg % 1000)
}

// universal evaluates the oracles that hold for every scenario on the full fixture.
func universal(sc *Scn, x *vrt.Sched, w *World) []Finding {
	var fs []Finding
	add := func(prop, key, detail string) { fs = append(fs, Finding{prop, key, detail}) }
	sp := curSpec
	if w == nil || w.Srv == nil || sp == nil || sp.Name != sc.Name {
		// non-Spec scenarios still get the crash / deadlock oracles
		if x.Crash != nil {
			add("C07", "thread panic: "+x.Crash.Site+": "+norm(x.Crash.Value), fmt.Sprintf("thread %s: %s", x.Crash.Thread, x.Crash.Value))
		}
		return fs
	}
	events := parseLog(x.Log)

	// ---- C07: a panic that reaches the top of a thread kills the process
	if x.Crash != nil && !sp.ExpectCrash {
		add("C07", "process crash: panic reaches the top of a goroutine: "+x.Crash.Site+": "+norm(x.Crash.Value), fmt.Sprintf("thread %s: %s", x.Crash.Thread, x.Crash.Value))
		return fs
	}
	if x.Crash != nil {
		return fs
	}

	// ---- deadlocks: no thread can run any more, so the state is final and every promise that is still
	// open in it is broken for good
	if x.Deadlock {
		blocked := strings.Join(x.Blocked, " ")
		stopBlocked := strings.Contains(blocked, "stopper@") || strings.Contains(blocked, "stopper2@")
		key := "blocked: " + roles(x.Blocked)
		seen := map[string]bool{}
		addOnce := func(prop, k, d string) {
			if !seen[prop] {
				seen[prop] = true
				add(prop, k, d)
			}
		}
		if stopBlocked {
			addOnce("C11", "Stop never returns while clients do nothing further; "+key, "no thread can run; "+blocked)
		} else {
			addOnce(sc.Props[0], "deadlock; "+key, "no thread can run; "+blocked)
		}
		// C06: a handler (or the read loop serving one inline) still waits at a harness gate: every gate of a
		// scenario opens once the requests behind it are dispatched, so dispatch is being held up
		for _, r := range strings.Fields(roles(x.Blocked)) {
			if (strings.HasPrefix(r, "handler@gate:") || strings.HasPrefix(r, "conn-loop@gate:")) && hasProp(sc, "C06") {
				addOnce("C06", "handlers are not dispatched concurrently: a handler waiting for a later request to start blocks the connection; "+key, blocked)
			}
		}
		if strings.Contains(blocked, "gate:started") {
			addOnce("C06", "handlers are not dispatched concurrently: a handler waiting for a later request to start blocks the connection; "+key, blocked)
		}
		// C07: a connection other than the faulty one is still waiting for the server
		if hasProp(sc, "C07") {
			for _, b := range x.Blocked {
				name := b
				if at := strings.IndexByte(b, '@'); at >= 0 {
					name = b[:at]
				}
				if ci := clientIndex(sp, name); ci >= 0 && name != "faulty" && (strings.Contains(b, ".Read") || strings.Contains(b, "Dial")) {
					addOnce("C07", "another connection is never served after a fault on one connection; "+key, blocked)
				}
			}
		}
		// C07: Stop waits for ever for the teardown of a connection that had a fault: its socket stays open
		// (one descriptor lost per fault; with enough of them accept fails for good)
		if stopBlocked && hasProp(sc, "C07") {
			for _, n := range vnet.OpenServerEndpoints() {
				if n == "faulty.server" {
					addOnce("C07", "after a fault the connection is never closed: its teardown blocks for ever (a descriptor is lost per fault); "+key, blocked)
				}
			}
		}
		// C03: a client has been sent an answer that no handler wrote although the scenario has a route for
		// every request: gldap answered in the handler's place
		if hasProp(sc, "C03") && !sp.Srv.NoDefaultRoute {
			for _, c := range w.Clients {
				ci := clientIndex(sp, c.Name)
				if ci < 0 || c.C == nil {
					continue
				}
				frames, _, ferr := codec.Frames(append(append([]byte(nil), c.Got...), c.C.PendingBytes()...))
				if ferr != nil {
					continue
				}
				for _, f := range frames {
					r, err := codec.ParseResponse(f)
					if err != nil || r.MsgID == 0 {
						continue
					}
					mine := false
					for _, wr := range w.Writes {
						if bytes.Equal(wr.Frame, f) {
							mine = true
						}
					}
					if !mine {
						addOnce("C03", "gldap itself answers a request for which a route exists: the request is never passed to a handler; "+key, fmt.Sprintf("client %s received an answer to message %d (result code %d) that no handler wrote", c.Name, r.MsgID, r.Code))
					}
				}
			}
		}
		// C10: Stop waits for a connection on which an Unbind was read and which is still open
		if stopBlocked && hasProp(sc, "C10") {
			for _, n := range vnet.OpenServerEndpoints() {
				ci := clientIndex(sp, strings.TrimSuffix(n, ".server"))
				if ci >= 0 && (hasOp(sp.Conns[ci].Ops, "unbind") || hasOp(sp.Conns[ci].Ops, "unbind0")) && w.UnbindRan+w.Notes["unbind-read"] >= 0 {
					for _, l := range x.Log {
						if strings.HasPrefix(l, "h-unbind") || sp.Srv.NoUnbindRoute {
							addOnce("C10", "after an Unbind the connection is never closed; "+key, fmt.Sprintf("%s still open; %s", n, blocked))
							break
						}
					}
				}
			}
		}
		// C17: Stop has not been called and a client waits for the server for ever
		if !stopBlocked && hasProp(sc, "C17") && !strings.Contains(blocked, "stopper") {
			for _, b := range x.Blocked {
				name := b
				if at := strings.IndexByte(b, '@'); at >= 0 {
					name = b[:at]
				}
				if ci := clientIndex(sp, name); ci >= 0 && name != "faulty" && (strings.Contains(b, ".Read") || strings.Contains(b, "Dial")) {
					addOnce("C17", "a connection made while the server is ready and not stopped is never served; "+key, blocked)
				}
			}
		}
		// C08: Stop has been called (or the client is gone) and a connection is never closed and reported
		if stopBlocked && hasProp(sc, "C08") {
			unreported := !sp.Srv.NoOnClose && vnet.Accepted() >= 0 && len(w.OnClose) < vnet.Accepted()
			if open := vnet.OpenServerEndpoints(); len(open) > 0 || unreported {
				addOnce("C08", "a connection is never closed and reported via OnClose: its teardown blocks forever; "+key, fmt.Sprintf("open server sockets %v, accepted=%d OnClose calls=%v; %s", open, vnet.Accepted(), w.OnClose, blocked))
			}
		}
		return fs
	}

	// ---- complete execution from here on
	stopped := w.StopDone > 0
	// C11/C12: Stop and Run results
	for _, e := range w.StopErr {
		if e != nil {
			add("C12", "Stop returns an error: "+norm(e.Error()), e.Error())
		}
	}
	if stopped && w.RunDone && w.RunErr != nil && sp.Srv.Addr == "" {
		add("C11", "Run returns an error after Stop: "+norm(w.RunErr.Error()), w.RunErr.Error())
	}
	if stopped && !w.RunDone && !sp.Srv.NoRun {
		add("C11", "Run has not returned although Stop returned and every thread finished", "")
	}

	// ---- C12: quiescence once Stop and Run have both returned
	runPos := -1
	var stopPos []int
	for _, e := range events {
		switch e.kind {
		case "run-returned":
			runPos = e.pos
		case "stop-returned":
			stopPos = append(stopPos, e.pos)
		}
	}
	if runPos >= 0 {
		for _, sp0 := range stopPos {
			t := sp0
			if runPos > t {
				t = runPos
			}
			for _, e := range events {
				if e.pos <= t {
					continue
				}
				switch e.kind {
				case "h-enter", "h-exit", "h-unbind", "onclose", "onclose-enter", "sockclose":
					what := map[string]string{"h-enter": "a handler starts", "h-exit": "a handler is still running", "h-unbind": "the unbind handler runs", "onclose": "an OnClose callback completes", "onclose-enter": "an OnClose callback starts", "sockclose": "a connection is closed"}[e.kind]
					add("C12", "after Stop and Run have both returned, "+what, fmt.Sprintf("event %q at position %d, Stop returned at %d, Run at %d; log: %v", e.raw, e.pos, sp0, runPos, x.Log))
				}
			}
		}
		if stopped {
			var port int
			fmt.Sscanf(w.Addr[strings.LastIndexByte(w.Addr, ':')+1:], "%d", &port)
			if vnet.PortBound(port) {
				add("C12", "the listening port is still bound after Stop and Run have returned", fmt.Sprintf("log: %v", x.Log))
			}
		}
	}

	// ---- C08: sockets closed, OnClose exactly once, after the handlers
	if stopped {
		if open := vnet.OpenServerEndpoints(); len(open) > 0 {
			sort.Strings(open)
			add("C08", "a server-side socket is still open at the end", fmt.Sprintf("%v; log: %v", open, x.Log))
			if w.RunDone {
				add("C12", "Stop and Run have returned although an accepted connection is still open (its socket was never closed)", fmt.Sprintf("%v; log: %v", open, x.Log))
			}
			if hasProp(sc, "C07") {
				add("C07", "the socket of a connection that had a fault is never closed (one descriptor leaked per fault: accept eventually fails)", fmt.Sprintf("%v; log: %v", open, x.Log))
			}
		}
		if !sp.Srv.NoOnClose {
			if vnet.Accepted() >= 0 && len(w.OnClose) != vnet.Accepted() {
				add("C08", fmt.Sprintf("OnClose called %s than once per accepted connection", map[bool]string{true: "more", false: "less"}[len(w.OnClose) > vnet.Accepted()]), fmt.Sprintf("accepted=%d OnClose calls=%v; log: %v", vnet.Accepted(), w.OnClose, x.Log))
				if len(w.OnClose) < vnet.Accepted() && runPos >= 0 {
					add("C12", "Stop and Run have returned although the OnClose callback of an accepted connection has never run", fmt.Sprintf("accepted=%d OnClose calls=%v; log: %v", vnet.Accepted(), w.OnClose, x.Log))
				}
			}
			seen := map[int]bool{}
			for _, id := range w.OnClose {
				if seen[id] {
					add("C08", "OnClose called twice with the same connection ID", fmt.Sprintf("%v", w.OnClose))
				}
				seen[id] = true
			}
		}
	}
	// order per connection
	onclosePos := map[int]int{}
	for _, e := range events {
		if e.kind == "onclose-enter" {
			if _, ok := onclosePos[e.conn]; !ok {
				onclosePos[e.conn] = e.pos
			}
		}
	}
	for _, e := range events {
		if (e.kind == "h-enter" || e.kind == "h-exit" || e.kind == "h-unbind") && e.conn > 0 {
			if p, ok := onclosePos[e.conn]; ok && e.pos > p {
				add("C08", "OnClose is called before a handler of that connection has returned", fmt.Sprintf("%q at %d, OnClose(%d) at %d; log: %v", e.raw, e.pos, e.conn, p, x.Log))
			}
		}
	}
	// socket close before OnClose, handlers before socket close (needs the conn <-> socket mapping via message IDs)
	connOfClient := map[int]int{}
	for _, d := range w.Dispatch {
		connOfClient[clientOfMsg(d.MsgID)] = d.Conn
	}
	for ci, conn := range connOfClient {
		name := ""
		if ci >= 0 && ci < len(w.Clients) {
			name = w.Clients[ci].Name
		}
		for _, c := range w.Clients {
			if clientIndex(sp, c.Name) == ci {
				name = c.Name
			}
		}
		closePos := -1
		for _, e := range events {
			if e.kind == "sockclose" && e.raw == "env: server closed "+name+".server" {
				closePos = e.pos
			}
		}
		if closePos < 0 {
			continue
		}
		if p, ok := onclosePos[conn]; ok && p < closePos {
			add("C08", "OnClose is called before the connection's socket is closed", fmt.Sprintf("conn %d; log: %v", conn, x.Log))
		}
		for _, e := range events {
			if (e.kind == "h-enter" || e.kind == "h-exit") && e.conn == conn && e.pos > closePos {
				add("C08", "the socket is closed before a handler of that connection has returned", fmt.Sprintf("%q at %d, socket closed at %d; log: %v", e.raw, e.pos, closePos, x.Log))
				if ci >= 0 && ci < len(sp.Conns) && (hasOp(sp.Conns[ci].Ops, "unbind") || hasOp(sp.Conns[ci].Ops, "unbind0")) {
					add("C10", "after an Unbind the connection is closed before an earlier in-flight handler has finished", fmt.Sprintf("%q at %d, socket closed at %d; log: %v", e.raw, e.pos, closePos, x.Log))
				}
			}
		}
	}

	// ---- C09: connection IDs
	idOfClient := map[int]int{}
	for _, d := range w.Dispatch {
		ci := clientOfMsg(d.MsgID)
		if d.Conn <= 0 {
			add("C09", "ConnectionID is not positive", fmt.Sprintf("%+v", d))
		}
		if prev, ok := idOfClient[ci]; ok && prev != d.Conn {
			add("C09", "requests of one connection report different ConnectionIDs", fmt.Sprintf("client %d: %d and %d", ci+1, prev, d.Conn))
		}
		idOfClient[ci] = d.Conn
	}
	byID := map[int]int{}
	for ci, id := range idOfClient {
		if other, ok := byID[id]; ok && other != ci {
			add("C09", "two connections share a ConnectionID", fmt.Sprintf("clients %d and %d both report %d", other+1, ci+1, id))
		}
		byID[id] = ci
	}
	if !sp.Srv.NoOnClose && vnet.Accepted() >= 0 && len(w.OnClose) <= vnet.Accepted() {
		// OnClose ran at most once per accepted connection: the same ID twice means two connections had it
		// (connections that never sent a request have no other witness of their ID)
		seenID := map[int]bool{}
		for _, id := range w.OnClose {
			if seenID[id] {
				add("C09", "two connections share a ConnectionID", fmt.Sprintf("OnClose reports ID %d for two of the %d accepted connections: %v", id, vnet.Accepted(), w.OnClose))
				break
			}
			seenID[id] = true
		}
	}
	if stopped && !sp.Srv.NoOnClose {
		closed := map[int]bool{}
		for _, id := range w.OnClose {
			closed[id] = true
		}
		for ci, id := range idOfClient {
			if !closed[id] {
				add("C09", "OnClose never reports the ConnectionID the connection's requests saw", fmt.Sprintf("client %d had ID %d; OnClose got %v", ci+1, id, w.OnClose))
			}
		}
	}

	// a request keeps reporting the connection it arrived on, also after that connection has gone and others came
	for _, k := range w.Kept {
		if now := k.R.ConnectionID(); now != k.Conn {
			add("C09", "a request reports another ConnectionID than it did while it was handled", fmt.Sprintf("reported %d in its handler, %d at the end of the scenario", k.Conn, now))
			break
		}
	}

	// ---- C06: Request.ID is the arrival number
	sent := map[int64]int{} // how many requests of the scenario carry a message ID
	for ci, cs := range sp.Conns {
		for k, op := range cs.Ops {
			sent[opMsgID(op, ci, k+1)]++
		}
	}
	for _, d := range w.Dispatch {
		k := reqOfMsg(d.MsgID)
		if k != 99 && k != 90 && d.Req != k && sent[d.MsgID] < 2 {
			add("C06", "Request.ID is not the request's arrival number on its connection", fmt.Sprintf("message %d (request #%d of its connection) saw Request.ID %d", d.MsgID, k, d.Req))
		}
	}
	// exactly-once dispatch (C03's clause through the connection loop)
	cnt := map[int64]int{}
	for _, d := range w.Dispatch {
		cnt[d.MsgID]++
	}
	for id, n := range cnt {
		if n > 1 && n > sent[id] {
			add("C06", "a request is dispatched more than once", fmt.Sprintf("message %d dispatched %d times", id, n))
			add("C03", "a request is handled more than once (through the connection loop)", fmt.Sprintf("message %d dispatched %d times", id, n))
			add("C01", "handlers of pipelined requests are handed the message of another request (one request's message arrives more than once, another's not at all)", fmt.Sprintf("message %d was seen by %d handler invocations; dispatched: %v", id, n, w.Dispatch))
		}
	}
	// a request whose client received all expected answers must have been dispatched
	for ci, cs := range sp.Conns {
		if cs.Read != "" || cs.Expect == 0 || cs.TLS != "" {
			continue
		}
		var cl *Cl
		for _, c := range w.Clients {
			if clientIndex(sp, c.Name) == ci {
				cl = c
			}
		}
		if cl == nil || cl.DialErr != nil || !stopped || sp.StopWhen != "" || len(cl.Frames) < cs.Expect || sp.Srv.NoDefaultRoute {
			continue // Stop may have come before the request was read
		}
		for k, op := range cs.Ops {
			if isUnbind(op) || op == "garbage" || op == "bind-badcontrol" || op == "compare" || op == "starttls-silent" || op == "starttls-badhello" || op == "starttls-badhello-alert" || op == "tls-closewrite" {
				break
			}
			if h := cs.H[k+1]; h != nil && h.Panic != "" {
				continue
			}
			if cnt[opMsgID(op, ci, k+1)] < sent[opMsgID(op, ci, k+1)] && sent[opMsgID(op, ci, k+1)] > 1 {
				add("C03", "a request is silently dropped (never dispatched to any handler)", fmt.Sprintf("%d requests of client %s carry message ID %d, %d dispatched", sent[opMsgID(op, ci, k+1)], cl.Name, opMsgID(op, ci, k+1), cnt[opMsgID(op, ci, k+1)]))
			}
			if cnt[opMsgID(op, ci, k+1)] == 0 {
				add("C03", "a request is silently dropped (never dispatched to any handler)", fmt.Sprintf("message %d (%s) of client %s; dispatched: %v", opMsgID(op, ci, k+1), op, cl.Name, w.Dispatch))
			}
		}
	}

	// with a debug-level logger gldap says which requests it has read ("packet read ... conn=N requestID=K"):
	// a request that was read and is a well-formed request of a supported kind must have been dispatched,
	// whatever Stop was doing meanwhile (single-connection scenarios: the connection needs no mapping)
	if sp.Srv.Debug && len(sp.Conns) == 1 && stopped && w.RunDone {
		cs := sp.Conns[0]
		w.LogBuf.mu.Lock()
		lines := append([]string(nil), w.LogBuf.lines...)
		w.LogBuf.mu.Unlock()
		for _, l := range lines {
			i := strings.Index(l, "packet read")
			if i < 0 {
				continue
			}
			var conn, k int
			if j := strings.Index(l, "conn="); j >= 0 {
				fmt.Sscanf(l[j:], "conn=%d", &conn)
			}
			if j := strings.Index(l, "requestID="); j >= 0 {
				fmt.Sscanf(l[j:], "requestID=%d", &k)
			}
			if k < 1 || k > len(cs.Ops) {
				continue
			}
			op := cs.Ops[k-1]
			if isUnbind(op) || op == "garbage" || op == "bind-badcontrol" || op == "compare" || strings.HasPrefix(op, "starttls") || op == "tls-closewrite" {
				continue
			}
			if h := cs.H[k]; h != nil && h.Panic != "" {
				continue
			}
			found := false
			for _, d := range w.Dispatch {
				if d.Conn == conn && d.Req == k {
					found = true
				}
			}
			if !found {
				add("C03", "a request that was read and decoded is never passed to a handler", fmt.Sprintf("gldap logged %q, but request #%d (%s) of connection %d was not dispatched; dispatched: %v", strings.TrimSpace(l[i:]), k, op, conn, w.Dispatch))
			}
		}
	}

	// ---- C10: nothing after Unbind
	for ci, cs := range sp.Conns {
		u := -1
		for k, op := range cs.Ops {
			if isUnbind(op) {
				u = k + 1
				break
			}
		}
		if u < 0 {
			continue
		}
		for _, d := range w.Dispatch {
			if clientOfMsg(d.MsgID) == ci && reqOfMsg(d.MsgID) > u && d.Route != "unbind" {
				add("C10", "a request that follows an Unbind on the same connection is dispatched", fmt.Sprintf("message %d (%s) dispatched; Unbind was request #%d", d.MsgID, d.Route, u))
			}
		}
		for _, d := range w.Dispatch {
			if clientOfMsg(d.MsgID) == ci && reqOfMsg(d.MsgID) == u && !isZeroID(cs.Ops[u-1]) && d.Route != "unbind" && d.Route != "unbind-replaced" {
				add("C10", "an Unbind request is passed to a handler that is not the unbind route's", fmt.Sprintf("message %d dispatched to the %s handler", d.MsgID, d.Route))
			}
		}
		// a client that reads until the server closes: the answers of the requests in front of the Unbind reach it
		if cs.Read == "all" && cs.RecvBuf == 0 && cs.ReadFor == 0 && (cs.End == "" || cs.End == "close") && sp.Srv.WriteTimeout == 0 && sp.Srv.ReadTimeout == 0 && sp.StopWhen == "" {
			for _, wr := range w.Writes {
				if clientOfMsg(wr.MsgID) == ci && reqOfMsg(wr.MsgID) < u && !wr.OK {
					add("C10", "after an Unbind the session is shut down before an earlier in-flight handler has answered (its Write fails although the client is still reading)", fmt.Sprintf("message %d of client %d", wr.MsgID, ci+1))
				}
			}
		}
		ran := 0
		for _, d := range w.Dispatch {
			if clientOfMsg(d.MsgID) == ci && (d.Route == "unbind" || d.Route == "unbind-replaced") {
				ran++
				if (d.Route == "unbind") == (w.Notes["unbind-route-replaced"] > 0) && sp.ReplacedUnbind {
					add("C10", "the unbind handler that runs is not the one registered when the Unbind was read", fmt.Sprintf("client %d: %s", ci+1, d.Route))
				}
			}
		}
		want := 1
		if sp.Srv.NoUnbindRoute {
			want = 0
		}
		if stopped && ran != want {
			add("C10", fmt.Sprintf("the unbind handler ran %d times instead of %d", ran, want), fmt.Sprintf("client %d", ci+1))
		}
	}

	// ---- C05 / C10: what each client received
	for _, c := range w.Clients {
		ci := clientIndex(sp, c.Name)
		if ci < 0 || c.C == nil {
			continue
		}
		frames, left, ferr := codec.Frames(c.Got)
		if ferr != nil {
			add("C05", "the client's stream is not a concatenation of whole LDAPMessages", fmt.Sprintf("client %s: %v after %d frames", c.Name, ferr, len(frames)))
			continue
		}
		var wrote [][]byte
		var wroteOK [][]byte
		for _, wr := range w.Writes {
			if clientOfMsg(wr.MsgID) == ci {
				wrote = append(wrote, wr.Frame)
				if wr.OK {
					wroteOK = append(wroteOK, wr.Frame)
				}
			}
		}
		// frames gldap wrote by itself (notice of disconnection, message ID 0; refusals) are not handler writes
		var got [][]byte
		for _, f := range frames {
			r, err := codec.ParseResponse(f)
			if err == nil && r.MsgID == 0 && !contains(wrote, f) {
				// a frame with message ID 0 that no handler wrote is gldap's own notice of disconnection - unless the
				// client sent an Unbind with message ID 0 and this is an answer to it
				if hasOp(sp.Conns[ci].Ops, "unbind0") && !(r.RespName != nil && *r.RespName == "1.3.6.1.4.1.1466.20036") {
					add("C10", "gldap itself answers an Unbind request", fmt.Sprintf("client %s got % x", c.Name, f))
				}
				continue
			}
			if err == nil && r.Code == 53 && !contains(wrote, f) {
				if hasUnbindAt(sp, ci, reqOfMsg(r.MsgID)) {
					add("C10", "gldap itself answers an Unbind request", fmt.Sprintf("client %s got % x", c.Name, f))
				}
				continue // built-in refusal
			}
			got = append(got, f)
		}
		for _, f := range got {
			if !contains(wrote, f) {
				add("C05", "the client receives a frame no handler wrote (torn or merged frames)", fmt.Sprintf("client %s: % x", c.Name, trunc(f)))
				if c.Name != "faulty" && hasProp(sc, "C07") {
					for _, wr := range w.Writes {
						if clientOfMsg(wr.MsgID) != ci && bytes.Equal(wr.Frame, f) {
							add("C07", "a connection receives a response that was written for another connection", fmt.Sprintf("client %s receives the answer to message %d", c.Name, wr.MsgID))
						}
					}
				}
			}
		}
		if dup := duplicate(got, wrote); dup != nil {
			add("C05", "a frame is delivered more often than it was written", fmt.Sprintf("client %s: % x", c.Name, trunc(dup)))
		}
		complete := (c.EOF || c.ReadErr != nil) && len(left) == 0
		if complete && c.NC == c.C || complete && curTLS(c) {
			// the client read to the end of the stream: every successful Write must have arrived
			for _, f := range wroteOK {
				if !contains(got, f) {
					add("C05", "a response whose Write succeeded never reaches the client", fmt.Sprintf("client %s read to the end of the stream; missing % x", c.Name, trunc(f)))
					break
				}
			}
		}
		// a Write that failed (a write timeout in the middle of the frame) may leave the beginning of its frame behind
		failedPrefix := false
		for _, wr := range w.Writes {
			if clientOfMsg(wr.MsgID) == ci && !wr.OK && len(left) > 0 && len(left) < len(wr.Frame) && bytes.Equal(left, wr.Frame[:len(left)]) {
				failedPrefix = true
			}
		}
		if len(left) > 0 && (c.EOF || c.ReadErr != nil) && !failedPrefix {
			add("C05", "the stream ends in the middle of a frame", fmt.Sprintf("client %s: %d leftover bytes", c.Name, len(left)))
		}
		// per-handler order
		pos := func(f []byte) int {
			for i, g := range got {
				if bytes.Equal(f, g) {
					return i
				}
			}
			return -1
		}
		last := map[int64]int{}
		for _, wr := range w.Writes {
			if clientOfMsg(wr.MsgID) != ci || !wr.OK {
				continue
			}
			p := pos(wr.Frame)
			if p < 0 {
				continue
			}
			if lp, ok := last[wr.MsgID]; ok && p < lp {
				add("C05", "frames written by one handler arrive out of order", fmt.Sprintf("client %s message %d", c.Name, wr.MsgID))
			}
			last[wr.MsgID] = p
		}
	}
	// C04 states the same about every single response: it arrives as one well-formed LDAPMessage
	for _, f := range fs {
		if f.Prop == "C05" {
			fs = append(fs, Finding{"C04", f.Key, f.Detail})
		}
	}
	return fs
}

func curTLS(c *Cl) bool { return c.NC != nil }

func hasUnbindAt(sp *Spec, ci, k int) bool {
	if ci < 0 || ci >= len(sp.Conns) || k < 1 || k > len(sp.Conns[ci].Ops) {
		return false
	}
	return isUnbind(sp.Conns[ci].Ops[k-1])
}

func clientIndex(sp *Spec, name string) int {
	for i, c := range sp.Conns {
		n := c.Name
		if n == "" {
			n = fmt.Sprintf("c%d", i+1)
		}
		if n == name {
			return i
		}
	}
	return -1
}

func contains(set [][]byte, f []byte) bool {
	for _, g := range set {
		if bytes.Equal(f, g) {
			return true
		}
	}
	return false
}

func duplicate(got, wrote [][]byte) []byte {
	for _, f := range got {
		ng, nw := 0, 0
		for _, g := range got {
			if bytes.Equal(f, g) {
				ng++
			}
		}
		for _, g := range wrote {
			if bytes.Equal(f, g) {
				nw++
			}
		}
		if ng > nw {
			return f
		}
	}
	return nil
}

func trunc(b []byte) []byte {
	if len(b) > 48 {
		return b[:48]
	}
	return b
}

// roles canonicalises a blocked-thread list: thread identities become roles, socket names are dropped.
func roles(blocked []string) string {
	set := map[string]bool{}
	for _, b := range blocked {
		i := strings.IndexByte(b, '@')
		if i < 0 {
			continue
		}
		name, op := b[:i], b[i+1:]
		role := "client"
		switch {
		case name == "run":
			role = "accept-loop"
		case strings.HasPrefix(name, "run.") && strings.Count(name, ".") == 1:
			role = "conn-loop"
		case strings.HasPrefix(name, "run."):
			role = "handler"
		case strings.HasPrefix(name, "stopper"):
			role = "Stop"
		case name == "main":
			role = "harness"
		}
		if j := strings.LastIndex(op, ".server."); j >= 0 {
			op = "socket." + op[j+8:]
		} else if j := strings.LastIndex(op, ".client."); j >= 0 {
			op = "socket." + op[j+8:]
		}
		set[role+"@"+op] = true
	}
	var out []string
	for k := range set {
		out = append(out, k)
	}
	sort.Strings(out)
	return strings.Join(out, " ")
}

func hasOp(ops []string, op string) bool {
	for _, o := range ops {
		if o == op {
			return true
		}
	}
	return false
}

func hasProp(sc *Scn, p string) bool {
	for _, q := range sc.Props {
		if q == p {
			return true
		}
	}
	return false
}
