package main

import (
	"bytes"
	"crypto/ed25519"
	"crypto/rand"
	"crypto/rsa"
	"crypto/tls"
	"crypto/x509"
	"crypto/x509/pkix"
	"fmt"
	"io"
	"math/big"
	"net"
	"strings"
	"sync"
	"time"

	"github.com/hashicorp/go-hclog"
	"verif/codec"
	gldap "verif/gldapx"
	vrt "verif/rt"
	"verif/shim/vnet"
)

// ---------- per-execution world ----------

// World is the harness state of one execution (reachable through vrt.Current().Data).
type World struct {
	Srv            *gldap.Server
	Addr           string
	LogBuf         *logCapture
	Started        int // handlers started
	Finished       int // handlers finished
	InFlight       int // handlers running
	PerMsg         map[int64]*HSpec
	Clients        []*Cl
	Writes         []WriteRec    // every ResponseWriter.Write performed by harness handlers
	Dispatch       []DispatchRec // every handler invocation
	OnClose        []int
	OnCloseStarted int
	StopErr        []error
	RunErr         error
	RunDone        bool
	StopDone       int
	UnbindRan      int
	Notes          map[string]int
	TLSCfg         *tls.Config // server config used by the StartTLS handler
	SharedCtl      map[string]gldap.Control
	Opts           SrvOpts
	Mux            *gldap.Mux
	Kept           []keptReq // every request a handler saw, with the connection ID it reported then
}

func W() *World {
	if vrt.Free() {
		return vrt.FreeData().(*World)
	}
	return vrt.Current().Data.(*World)
}

type keptReq struct {
	R    *gldap.Request
	Conn int
}

type WriteRec struct {
	Conn  int
	Req   int
	MsgID int64
	Frame []byte
	OK    bool
	Seq   int // per-handler sequence
}

type DispatchRec struct {
	Conn  int
	Req   int
	MsgID int64
	Route string
}

// HSpec is what the harness handler does for one message ID.
type HSpec struct {
	WaitStarted int    // block until this many handlers have started (0 = do not wait)
	WaitNote    string // block until Notes[WaitNote] > 0
	Frames      []int  // payload sizes of the entry frames written before the final response (nil = only the final response)
	NoFinal     bool
	Panic       string // "before" | "after" : panic before / after writing
	Yields      int    // extra scheduling points before writing
	YieldsAfter int
	PanicVal    string // kind of value the handler panics with: "" = string | error | int | struct | stringer | nilmap (a runtime error)
	WaitMid     string // after the entry frames and before the final response: block until Notes[WaitMid] > 0
	Fan         int    // the entry frames are written by this many goroutines of the handler through the one ResponseWriter
	Ctl         string // attach the scenario's shared control object of this kind to the final response (bind, search)
	Sleep       int    // the handler works for this many virtual seconds before it writes
	Code        int    // result code of the final response (0 = success)
	LateWrite   string // the handler hands its ResponseWriter to a goroutine of its own and returns; the goroutine writes the final response once Notes[LateWrite] > 0
	WaitUnbinds int    // unbind handler: block until this many unbind handlers have started
}

type logCapture struct {
	mu    sync.Mutex
	lines []string
}

func (l *logCapture) Write(p []byte) (int, error) {
	l.mu.Lock()
	l.lines = append(l.lines, string(p))
	l.mu.Unlock()
	return len(p), nil
}

func (l *logCapture) Has(sub string) bool {
	for _, s := range l.lines {
		if strings.Contains(s, sub) {
			return true
		}
	}
	return false
}

// ---------- server fixture ----------

type SrvOpts struct {
	TLS            *tls.Config // TLS listener
	NoRecovery     bool
	NoOnClose      bool
	ReadTimeout    time.Duration
	WriteTimeout   time.Duration
	NoUnbindRoute  bool
	NoDefaultRoute bool
	OnlyRoutes     []string // if set, register only these route kinds
	Debug          bool
	OnCloseYields  int
	Addr           string
	NoRun          bool
	StartTLS       *tls.Config // configuration the StartTLS handler hands to Request.StartTLS (default: the PKI's server configuration)
	LegacyTLS      bool        // StartTLS with the RSA / TLS 1.0+ configuration (generated on first use only: RSA key generation is slow)
}

const defaultAddr = "127.0.0.1:3890"

// NewWorld must be the first call of a scenario body.
func NewWorld() *World {
	vnet.Reset()
	vrt.PermuteMaps = true
	w := &World{PerMsg: map[int64]*HSpec{}, Notes: map[string]int{}, LogBuf: &logCapture{}, SharedCtl: map[string]gldap.Control{}}
	if vrt.Current() == nil {
		vrt.StartFree(w)
	} else {
		vrt.Current().Data = w
	}
	return w
}

func (w *World) spec(id int64) *HSpec {
	if s, ok := w.PerMsg[id]; ok {
		return s
	}
	return &HSpec{}
}

func entryFrameFor(req *gldap.Request, size int, seq int) gldap.Response {
	e := req.NewSearchResponseEntry(fmt.Sprintf("cn=e%d", seq))
	if size > 0 {
		e.AddAttribute("blob", []string{strings.Repeat("x", size)})
	}
	return e
}

func finalFor(route string, req *gldap.Request) gldap.Response {
	switch route {
	case "bind":
		return req.NewBindResponse(gldap.WithResponseCode(gldap.ResultSuccess))
	case "search":
		return req.NewSearchDoneResponse(gldap.WithResponseCode(gldap.ResultSuccess))
	case "modify":
		return req.NewModifyResponse(gldap.WithResponseCode(gldap.ResultSuccess))
	case "add":
		return req.NewResponse(gldap.WithResponseCode(gldap.ResultSuccess), gldap.WithApplicationCode(gldap.ApplicationAddResponse))
	case "delete":
		return req.NewResponse(gldap.WithResponseCode(gldap.ResultSuccess), gldap.WithApplicationCode(gldap.ApplicationDelResponse))
	default:
		return req.NewExtendedResponse(gldap.WithResponseCode(gldap.ResultSuccess))
	}
}

var ctlKinds = []string{"behera-grace", "behera-expire", "behera-error", "paging", "string", "managedsait", "ms-notification", "ms-showdeleted", "ms-serverlinkttl"}

// newCtl builds a fresh control of a named kind.
func newCtl(kind string) gldap.Control {
	var c gldap.Control
	var err error
	switch kind {
	case "behera-grace":
		c, err = gldap.NewControlBeheraPasswordPolicy(gldap.WithGraceAuthNsRemaining(3))
	case "behera-expire":
		c, err = gldap.NewControlBeheraPasswordPolicy(gldap.WithSecondsBeforeExpiration(86400))
	case "behera-error":
		c, err = gldap.NewControlBeheraPasswordPolicy(gldap.WithErrorCode(2))
	case "paging":
		p, e := gldap.NewControlPaging(100)
		if e == nil {
			p.SetCookie([]byte{0, 1, 0xff})
		}
		c, err = p, e
	case "string":
		c, err = gldap.NewControlString("1.2.3.4", gldap.WithCriticality(true), gldap.WithControlValue("v\x00"))
	case "managedsait":
		c, err = gldap.NewControlManageDsaIT(gldap.WithCriticality(true))
	case "ms-notification":
		c, err = gldap.NewControlMicrosoftNotification()
	case "ms-showdeleted":
		c, err = gldap.NewControlMicrosoftShowDeleted()
	case "ms-serverlinkttl":
		c, err = gldap.NewControlMicrosoftServerLinkTTL()
	default:
		panic("newCtl: " + kind)
	}
	if err != nil {
		panic(err)
	}
	return c
}

func msgIDOf(r *gldap.Request) int64 { return gldap.VMessage(r).GetID() }

// handler builds the harness handler for a route kind.
func (w *World) handler(route string) gldap.HandlerFunc {
	return func(rw *gldap.ResponseWriter, r *gldap.Request) {
		if route == "default" {
			// an application may serve StartTLS from its catch-all route
			if m, ok := gldap.VMessage(r).(*gldap.ExtendedOperationMessage); ok && m.Name == gldap.ExtendedOperationStartTLS {
				w.startTLSHandler()(rw, r)
				return
			}
		}
		id := msgIDOf(r)
		conn := r.ConnectionID()
		vrt.Atomic(func() {
			w.Dispatch = append(w.Dispatch, DispatchRec{Conn: conn, Req: r.ID, MsgID: id, Route: route})
			w.Kept = append(w.Kept, keptReq{r, conn})
			w.Started++
			w.InFlight++
		})
		vrt.Logf("h-enter conn=%d req=%d msg=%d", conn, r.ID, id)
		defer func() {
			vrt.Atomic(func() {
				w.InFlight--
				w.Finished++
			})
			vrt.Logf("h-exit conn=%d req=%d", conn, r.ID)
		}()
		sp := w.spec(id)
		if sp.WaitStarted > 0 {
			vrt.WaitUntil("started", func() bool { return w.Started >= sp.WaitStarted })
		}
		if sp.WaitNote != "" {
			vrt.WaitUntil(sp.WaitNote, func() bool { return w.Notes[sp.WaitNote] > 0 })
		}
		for i := 0; i < sp.Yields; i++ {
			vrt.Yield()
		}
		if sp.Sleep > 0 {
			vrt.Sleep(secs(sp.Sleep))
		}
		if sp.Panic == "before" {
			vrt.Atomic(func() { w.Notes["panicked"]++ })
			switch sp.PanicVal {
			case "error":
				panic(fmt.Errorf("harness: handler panic (msg %d)", id))
			case "int":
				panic(42)
			case "struct":
				panic(struct{ A, B int }{1, 2})
			case "stringer":
				panic(net.IPv4(10, 0, 0, 1))
			case "nilmap":
				var m map[string]int
				m["x"] = 1
			}
			panic(fmt.Sprintf("harness: handler panic (msg %d)", id))
		}
		seq := 0
		write := func(resp gldap.Response) {
			frame := gldap.VPacketBytes(resp)
			err := rw.Write(resp)
			vrt.Atomic(func() {
				w.Writes = append(w.Writes, WriteRec{Conn: conn, Req: r.ID, MsgID: id, Frame: frame, OK: err == nil, Seq: seq})
			})
			seq++
		}
		if sp.Fan > 1 {
			// a handler that fans its result out to workers: several goroutines, one ResponseWriter
			done := 0
			for g := 0; g < sp.Fan; g++ {
				g := g
				vrt.Go(func() {
					for i, sz := range sp.Frames {
						if i%sp.Fan == g {
							write(entryFrameFor(r, sz, i))
						}
					}
					vrt.Atomic(func() { done++ })
				})
			}
			vrt.WaitUntil("fan-done", func() bool { return done == sp.Fan })
		} else {
			for i, sz := range sp.Frames {
				write(entryFrameFor(r, sz, i))
			}
		}
		if sp.WaitMid != "" {
			vrt.WaitUntil(sp.WaitMid, func() bool { return w.Notes[sp.WaitMid] > 0 })
		}
		if sp.LateWrite != "" {
			fin := finalFor(route, r)
			vrt.GoNamed("late-writer", func() {
				vrt.WaitUntil(sp.LateWrite, func() bool { return w.Notes[sp.LateWrite] > 0 })
				write(fin)
				vrt.Atomic(func() { w.Notes["late-write-done"]++ })
			})
			return
		}
		if !sp.NoFinal {
			fin := finalFor(route, r)
			if sp.Code != 0 {
				if sc, ok := fin.(interface{ SetResultCode(int) }); ok {
					sc.SetResultCode(sp.Code)
				}
			}
			if sp.Ctl != "" {
				// one control object, created once, attached to the responses of several handlers
				ctl := w.SharedCtl[sp.Ctl] // created by the scenario body before the server was started
				switch f := fin.(type) {
				case *gldap.BindResponse:
					f.SetControls(ctl)
				case *gldap.SearchResponseDone:
					f.SetControls(ctl)
				}
			}
			write(fin)
		}
		if sp.Panic == "after" {
			vrt.Atomic(func() { w.Notes["panicked"]++ })
			panic(fmt.Sprintf("harness: handler panic after write (msg %d)", id))
		}
		for i := 0; i < sp.YieldsAfter; i++ {
			vrt.Yield()
		}
	}
}

func (w *World) startTLSHandler() gldap.HandlerFunc {
	return func(rw *gldap.ResponseWriter, r *gldap.Request) {
		id := msgIDOf(r)
		conn := r.ConnectionID()
		vrt.Atomic(func() {
			w.Dispatch = append(w.Dispatch, DispatchRec{Conn: conn, Req: r.ID, MsgID: id, Route: "starttls"})
			w.Started++
			w.InFlight++
		})
		vrt.Logf("h-enter conn=%d req=%d msg=%d", conn, r.ID, id)
		defer func() {
			vrt.Atomic(func() {
				w.InFlight--
				w.Finished++
			})
			vrt.Logf("h-exit conn=%d req=%d", conn, r.ID)
		}()
		sp := w.spec(id)
		for i := 0; i < sp.Yields; i++ {
			vrt.Yield()
		}
		if sp.Panic == "before" {
			vrt.Atomic(func() { w.Notes["panicked"]++ })
			panic("harness: StartTLS handler panic")
		}
		resp := r.NewExtendedResponse(gldap.WithResponseCode(gldap.ResultSuccess))
		resp.SetResponseName(gldap.ExtendedOperationStartTLS)
		frame := gldap.VPacketBytes(resp)
		err := rw.Write(resp)
		vrt.Atomic(func() {
			w.Writes = append(w.Writes, WriteRec{Conn: conn, Req: r.ID, MsgID: id, Frame: frame, OK: err == nil})
		})
		for i := 0; i < sp.YieldsAfter; i++ {
			vrt.Yield()
		}
		err = r.StartTLS(w.TLSCfg)
		vrt.Atomic(func() { w.Notes["starttls-done"]++ })
		if err != nil {
			vrt.Atomic(func() { w.Notes["starttls-handshake-error"]++ })
			vrt.Logf("starttls-error conn=%d", conn)
			return
		}
		vrt.Atomic(func() { w.Notes["starttls-ok"]++ })
		for i := 0; i < sp.YieldsAfter; i++ {
			vrt.Yield()
		}
	}
}

func has(list []string, s string) bool {
	if list == nil {
		return true
	}
	for _, x := range list {
		if x == s {
			return true
		}
	}
	return false
}

// StartServer creates the real server with harness handlers and runs it on its own thread.
func (w *World) StartServer(o SrvOpts) {
	level := hclog.Error
	if o.Debug {
		level = hclog.Debug
	}
	logger := hclog.New(&hclog.LoggerOptions{Name: "srv", Level: level, Output: w.LogBuf, DisableTime: true})
	opts := []gldap.Option{gldap.WithLogger(logger)}
	if !o.NoOnClose {
		opts = append(opts, gldap.WithOnClose(func(id int) {
			vrt.Atomic(func() { w.OnCloseStarted++ })
			vrt.Logf("onclose-enter %d", id)
			for i := 0; i < o.OnCloseYields; i++ {
				vrt.Yield()
			}
			vrt.Atomic(func() {
				w.OnClose = append(w.OnClose, id)
				w.Notes[fmt.Sprintf("onclose-%d", id)]++
			})
			vrt.Logf("onclose %d", id)
		}))
	}
	if o.NoRecovery {
		opts = append(opts, gldap.WithDisablePanicRecovery())
	}
	if o.ReadTimeout > 0 {
		opts = append(opts, gldap.WithReadTimeout(o.ReadTimeout))
	}
	if o.WriteTimeout > 0 {
		opts = append(opts, gldap.WithWriteTimeout(o.WriteTimeout))
	}
	srv, err := gldap.NewServer(opts...)
	if err != nil {
		panic(err)
	}
	must := func(e error) {
		if e != nil {
			panic(e)
		}
	}
	w.Mux = w.buildMux(o)
	must(srv.Router(w.Mux))
	w.Srv = srv
	w.Opts = o
	w.Addr = o.Addr
	if w.Addr == "" {
		w.Addr = vnet.DefaultAddr()
	}
	w.startRest(o)
}

// buildMux registers the harness handlers on a fresh Mux.
func (w *World) buildMux(o SrvOpts) *gldap.Mux {
	mux, _ := gldap.NewMux()
	must := func(e error) {
		if e != nil {
			panic(e)
		}
	}
	if has(o.OnlyRoutes, "bind") {
		must(mux.Bind(w.handler("bind")))
	}
	if has(o.OnlyRoutes, "search") {
		must(mux.Search(w.handler("search")))
	}
	if has(o.OnlyRoutes, "modify") {
		must(mux.Modify(w.handler("modify")))
	}
	if has(o.OnlyRoutes, "add") {
		must(mux.Add(w.handler("add")))
	}
	if has(o.OnlyRoutes, "delete") {
		must(mux.Delete(w.handler("delete")))
	}
	if has(o.OnlyRoutes, "extended") {
		must(mux.ExtendedOperation(w.handler("extended"), gldap.ExtendedOperationWhoAmI))
	}
	if has(o.OnlyRoutes, "starttls") {
		must(mux.ExtendedOperation(w.startTLSHandler(), gldap.ExtendedOperationStartTLS))
	}
	if !o.NoDefaultRoute && has(o.OnlyRoutes, "default") {
		must(mux.DefaultRoute(w.handler("default")))
	}
	if !o.NoUnbindRoute && has(o.OnlyRoutes, "unbind") {
		must(mux.Unbind(func(rw *gldap.ResponseWriter, r *gldap.Request) {
			id := msgIDOf(r)
			vrt.Atomic(func() {
				w.UnbindRan++
				w.Dispatch = append(w.Dispatch, DispatchRec{Conn: r.ConnectionID(), Req: r.ID, MsgID: id, Route: "unbind"})
			})
			vrt.Logf("h-unbind conn=%d req=%d", r.ConnectionID(), r.ID)
			vrt.Atomic(func() { w.Notes["unbind-started"]++ })
			if w.spec(id).Panic == "before" {
				vrt.Atomic(func() { w.Notes["panicked"]++ })
				panic("harness: unbind handler panic")
			}
			if n := w.spec(id).WaitUnbinds; n > 0 {
				conn, req := r.ConnectionID(), r.ID
				defer func() { vrt.Logf("h-exit conn=%d req=%d", conn, req) }()
				vrt.WaitUntil("unbinds", func() bool { return w.UnbindRan >= n })
			}
			if n := w.spec(id).Yields + w.spec(id).YieldsAfter; n > 0 {
				// a slow unbind handler (session clean-up): it is a handler of the connection like any other
				conn, req := r.ConnectionID(), r.ID
				defer func() { vrt.Logf("h-exit conn=%d req=%d", conn, req) }()
				for i := 0; i < n; i++ {
					vrt.Yield()
				}
			}
		}))
	}
	return mux
}

// ReplaceUnbindRoute registers another unbind handler on the running server's mux (Mux.Unbind overrides).
func (w *World) ReplaceUnbindRoute() {
	_ = w.Mux.Unbind(func(rw *gldap.ResponseWriter, r *gldap.Request) {
		id := msgIDOf(r)
		vrt.Atomic(func() {
			w.Dispatch = append(w.Dispatch, DispatchRec{Conn: r.ConnectionID(), Req: r.ID, MsgID: id, Route: "unbind-replaced"})
		})
		vrt.Logf("h-unbind conn=%d req=%d", r.ConnectionID(), r.ID)
	})
}

func (w *World) startRest(o SrvOpts) {
	if o.NoRun {
		return
	}
	w.GoRun(o)
}

// GoRun starts Run on its own thread.
func (w *World) GoRun(o SrvOpts) {
	vrt.GoNamed("run", func() {
		var ro []gldap.Option
		if o.TLS != nil {
			ro = append(ro, gldap.WithTLSConfig(o.TLS))
		}
		err := w.Srv.Run(w.Addr, ro...)
		vrt.Atomic(func() {
			w.RunErr = err
			w.RunDone = true
		})
		vrt.Logf("run-returned err=%v", err != nil)
	})
}

// Stop calls Server.Stop on the calling thread and records its return.
func (w *World) Stop() {
	vrt.Logf("stop-called")
	err := w.Srv.Stop()
	vrt.Atomic(func() {
		w.StopErr = append(w.StopErr, err)
		w.StopDone++
	})
	vrt.Logf("stop-returned err=%v", err != nil)
}

// ---------- clients ----------

// Cl is a raw-bytes LDAP client thread's connection.
type Cl struct {
	Name          string
	C             *vnet.Client
	NC            net.Conn // what the client reads/writes (C, or a tls.Client over C)
	FragmentHello bool     // the TLS client's first record leaves in three segments (1 byte, 1 byte, the rest)
	Raw           bool     // the client has left its TLS session and reads the socket below it
	RawTail       []byte
	Got           []byte // plaintext bytes received
	Frames        [][]byte
	ReadErr       error
	EOF           bool
	DialErr       error
	Wire          []wireChunk // wiretap (raw bytes in both directions)
}

type wireChunk struct {
	FromServer bool
	B          []byte
}

func (w *World) Dial(name string, recvBuf int) *Cl {
	c, err := vnet.DialWait(w.Addr, vnet.DialOpts{Name: name, RecvBuf: recvBuf})
	cl := &Cl{Name: name, C: c, DialErr: err}
	if c != nil {
		cl.NC = c
	}
	vrt.Atomic(func() { w.Clients = append(w.Clients, cl) })
	return cl
}

// DialNow dials without waiting for the listener (fails when nothing listens).
func (w *World) DialNow(name string) *Cl {
	c, err := vnet.Dial(w.Addr, vnet.DialOpts{Name: name})
	cl := &Cl{Name: name, C: c, DialErr: err}
	if c != nil {
		cl.NC = c
	}
	vrt.Atomic(func() { w.Clients = append(w.Clients, cl) })
	return cl
}

func (c *Cl) Tap() {
	c.C.SetTap(func(fromServer bool, b []byte) {
		c.Wire = append(c.Wire, wireChunk{fromServer, append([]byte(nil), b...)})
	})
}

func (c *Cl) Send(b []byte) error {
	_, err := c.NC.Write(b)
	return err
}

// ReadFrames reads until n whole frames have been received in total, or EOF / error.
func (c *Cl) ReadFrames(n int) {
	buf := make([]byte, 1<<16)
	if c.Raw {
		// what arrives now is not an LDAP stream for this client (TLS records read below the TLS layer): it is
		// drained, not parsed (ciphertext is random; parsing it would make the number of steps random too)
		for {
			k, err := c.NC.Read(buf)
			c.RawTail = append(c.RawTail, buf[:k]...)
			if err != nil {
				if err == io.EOF {
					c.EOF = true
				} else {
					c.ReadErr = err
				}
				return
			}
		}
	}
	for {
		frames, _, ferr := codec.Frames(c.Got)
		c.Frames = frames
		if ferr != nil || len(frames) >= n {
			return
		}
		k, err := c.NC.Read(buf)
		c.Got = append(c.Got, buf[:k]...)
		if err != nil {
			c.Frames, _, _ = codec.Frames(c.Got)
			if err == io.EOF {
				c.EOF = true
			} else {
				c.ReadErr = err
			}
			return
		}
	}
}

// ReadAll reads until EOF or error.
func (c *Cl) ReadAll() { c.ReadFrames(1 << 30) }

func (c *Cl) Close() { _ = c.NC.Close() }

// fragConn sends the first bytes a TLS client writes (the beginning of its ClientHello record) one byte per
// segment: TLS does not care where TCP cuts a record.
type fragConn struct {
	net.Conn
	done bool
}

func (f *fragConn) Write(p []byte) (int, error) {
	if f.done || len(p) < 4 {
		return f.Conn.Write(p)
	}
	f.done = true
	n := 0
	for _, cut := range []int{1, 2} {
		k, err := f.Conn.Write(p[n:cut])
		n += k
		if err != nil {
			return n, err
		}
	}
	k, err := f.Conn.Write(p[n:])
	return n + k, err
}

// UpgradeTLS runs a TLS client handshake over the connection.
func (c *Cl) UpgradeTLS(cfg *tls.Config) error {
	var under net.Conn = c.C
	if c.FragmentHello {
		under = &fragConn{Conn: c.C}
	}
	tc := tls.Client(under, cfg)
	if err := tc.Handshake(); err != nil {
		return err
	}
	c.NC = tc
	return nil
}

// ---------- request bytes ----------

func reqBytes(op string, id int64) []byte {
	var r *codec.Req
	switch op {
	case "bind":
		r = &codec.Req{Op: "bind", Version: 3, DN: "cn=u", Password: "p"}
	case "search":
		r = &codec.Req{Op: "search", DN: "dc=a", Scope: 2, FilterBER: codec.CtxPrim(7, "cn").Bytes()}
	case "modify":
		r = &codec.Req{Op: "modify", DN: "cn=u", Changes: []codec.Change{{Op: 2, Type: "mail", Vals: []string{"v"}}}}
	case "add":
		r = &codec.Req{Op: "add", DN: "cn=u", Attrs2: []codec.Attr{{Type: "mail", Vals: []string{"v"}}}}
	case "delete":
		r = &codec.Req{Op: "delete", DN: "cn=u"}
	case "search-paged":
		r = &codec.Req{Op: "search", DN: "dc=a", Scope: 2, FilterBER: codec.CtxPrim(7, "cn").Bytes(), Controls: []codec.Control{{Kind: "paging", Size: 25, Cookie: []byte("cookie-" + fmt.Sprint(id)), Expire: -1, Grace: -1, Err: -1}}}
	case "bind-behera":
		r = &codec.Req{Op: "bind", Version: 3, DN: "cn=u", Password: "p", Controls: []codec.Control{{Kind: "behera", Expire: 3600 + id, Grace: -1, Err: -1}}}
	case "whoami":
		r = &codec.Req{Op: "extended", Name: codec.OIDWhoAmI}
	case "starttls":
		r = &codec.Req{Op: "extended", Name: codec.OIDStartTLS}
	case "unknownext":
		r = &codec.Req{Op: "extended", Name: "1.2.3.4.5"}
	case "unbind":
		r = &codec.Req{Op: "unbind"}
	case "compare":
		return codec.Seq(codec.Int(id), codec.Cons(codec.Application, codec.AppCompareRequest, codec.Octet("cn=u"), codec.Seq(codec.Octet("cn"), codec.Octet("v")))).Bytes()
	case "bind-badcontrol":
		// a bind followed by a controls element whose control has an INTEGER where the controlType belongs
		b := (&codec.Req{Op: "bind", Version: 3, DN: "cn=u", Password: "p", MsgID: id}).Node()
		b.Kids = append(b.Kids, codec.Cons(codec.Context, 0, codec.Seq(codec.Int(42))))
		return b.Bytes()
	case "garbage":
		return []byte{0x30, 0x03, 0x02, 0x01, 0x05} // a SEQUENCE with one child: fails validation
	default:
		panic("reqBytes: " + op)
	}
	r.MsgID = id
	return r.Bytes()
}

// ---------- PKI (once per process, Ed25519 so that message sizes are constant) ----------

type pki struct {
	ServerCfg, ServerMTLSCfg           *tls.Config
	ClientCfg, ClientCertCfg, OtherCfg *tls.Config
}

var thePKI *pki

func getPKI() *pki {
	if thePKI != nil {
		return thePKI
	}
	mkCA := func(cn string) (*x509.Certificate, ed25519.PrivateKey, []byte) {
		pub, priv, _ := ed25519.GenerateKey(rand.Reader)
		tmpl := &x509.Certificate{SerialNumber: big.NewInt(1), Subject: pkix.Name{CommonName: cn}, NotBefore: time.Now().Add(-time.Hour), NotAfter: time.Now().Add(24 * 365 * time.Hour), IsCA: true, KeyUsage: x509.KeyUsageCertSign | x509.KeyUsageDigitalSignature, BasicConstraintsValid: true}
		der, err := x509.CreateCertificate(rand.Reader, tmpl, tmpl, pub, priv)
		if err != nil {
			panic(err)
		}
		c, _ := x509.ParseCertificate(der)
		return c, priv, der
	}
	mkLeaf := func(ca *x509.Certificate, caKey ed25519.PrivateKey, cn string, server bool) tls.Certificate {
		pub, priv, _ := ed25519.GenerateKey(rand.Reader)
		tmpl := &x509.Certificate{SerialNumber: big.NewInt(2), Subject: pkix.Name{CommonName: cn}, NotBefore: time.Now().Add(-time.Hour), NotAfter: time.Now().Add(24 * 365 * time.Hour), KeyUsage: x509.KeyUsageDigitalSignature}
		if server {
			tmpl.ExtKeyUsage = []x509.ExtKeyUsage{x509.ExtKeyUsageServerAuth}
			tmpl.DNSNames = []string{"localhost"}
			tmpl.IPAddresses = []net.IP{net.IPv4(127, 0, 0, 1)}
		} else {
			tmpl.ExtKeyUsage = []x509.ExtKeyUsage{x509.ExtKeyUsageClientAuth}
		}
		der, err := x509.CreateCertificate(rand.Reader, tmpl, ca, pub, caKey)
		if err != nil {
			panic(err)
		}
		return tls.Certificate{Certificate: [][]byte{der}, PrivateKey: priv}
	}
	ca, caKey, _ := mkCA("verif CA")
	other, otherKey, _ := mkCA("other CA")
	pool := x509.NewCertPool()
	pool.AddCert(ca)
	srvCert := mkLeaf(ca, caKey, "localhost", true)
	cliCert := mkLeaf(ca, caKey, "client", false)
	otherCert := mkLeaf(other, otherKey, "intruder", false)
	p := &pki{}
	p.ServerCfg = &tls.Config{Certificates: []tls.Certificate{srvCert}, MinVersion: tls.VersionTLS13, SessionTicketsDisabled: true}
	p.ServerMTLSCfg = &tls.Config{Certificates: []tls.Certificate{srvCert}, ClientAuth: tls.RequireAndVerifyClientCert, ClientCAs: pool, MinVersion: tls.VersionTLS13, SessionTicketsDisabled: true}
	p.ClientCfg = &tls.Config{RootCAs: pool, ServerName: "localhost", MinVersion: tls.VersionTLS13}
	p.ClientCertCfg = &tls.Config{RootCAs: pool, ServerName: "localhost", Certificates: []tls.Certificate{cliCert}, MinVersion: tls.VersionTLS13}
	p.OtherCfg = &tls.Config{RootCAs: pool, ServerName: "localhost", MinVersion: tls.VersionTLS13,
		// present the foreign certificate even though the server's acceptable-CA list does not name its issuer
		GetClientCertificate: func(*tls.CertificateRequestInfo) (*tls.Certificate, error) { return &otherCert, nil }}
	thePKI = p
	return p
}

var legacyOnce sync.Once
var legacySrv, legacyCli *tls.Config

// legacyPKI: an RSA server certificate and configurations that negotiate TLS 1.1 (Ed25519 needs TLS 1.2).
func legacyPKI() (*tls.Config, *tls.Config) {
	legacyOnce.Do(func() {
		key, err := rsa.GenerateKey(rand.Reader, 2048)
		if err != nil {
			panic(err)
		}
		tmpl := &x509.Certificate{SerialNumber: big.NewInt(7), Subject: pkix.Name{CommonName: "localhost"}, NotBefore: time.Now().Add(-time.Hour), NotAfter: time.Now().Add(24 * 365 * time.Hour),
			KeyUsage: x509.KeyUsageDigitalSignature | x509.KeyUsageKeyEncipherment | x509.KeyUsageCertSign, ExtKeyUsage: []x509.ExtKeyUsage{x509.ExtKeyUsageServerAuth}, DNSNames: []string{"localhost"}, IsCA: true, BasicConstraintsValid: true}
		der, err := x509.CreateCertificate(rand.Reader, tmpl, tmpl, &key.PublicKey, key)
		if err != nil {
			panic(err)
		}
		cert, _ := x509.ParseCertificate(der)
		pool := x509.NewCertPool()
		pool.AddCert(cert)
		legacySrv = &tls.Config{Certificates: []tls.Certificate{{Certificate: [][]byte{der}, PrivateKey: key}}, MinVersion: tls.VersionTLS10, SessionTicketsDisabled: true}
		legacyCli = &tls.Config{RootCAs: pool, ServerName: "localhost", MinVersion: tls.VersionTLS10, MaxVersion: tls.VersionTLS11}
	})
	return legacySrv, legacyCli
}

// isTLSRecords reports whether b is a sequence of whole or partial TLS records (each chunk boundary aside):
// the concatenated stream must parse as records with a valid header.
func tlsRecordStreamOK(stream []byte) (bool, string) {
	for len(stream) > 0 {
		if len(stream) < 5 {
			return true, "" // partial header at the end of the capture
		}
		if stream[0] < 0x14 || stream[0] > 0x17 || stream[1] != 0x03 || stream[2] > 0x04 {
			return false, fmt.Sprintf("bytes % x are not a TLS record header", stream[:5])
		}
		l := int(stream[3])<<8 | int(stream[4])
		if len(stream) < 5+l {
			return true, ""
		}
		stream = stream[5+l:]
	}
	return true, ""
}

var _ = bytes.Equal
