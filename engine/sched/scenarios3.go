package main

import (
	"bytes"
	"fmt"
	"sort"
	"strings"

	"github.com/hashicorp/go-hclog"
	"verif/codec"
	gldap "verif/gldapx"
	"verif/gldapx/testdirectory"

	vrt "verif/rt"
	"verif/shim/vnet"
)

// Scenarios added after the second round of seeded changes: each closes a gap that a change nobody had
// planned for slipped through (see DESIGN.md section 10).

func init() { moreScenarios = append(moreScenarios, registerRound2) }

// watchStarted raises note "started-<n>" once n handlers have started.
func watchStarted(n int) func(w *World) {
	return func(w *World) {
		vrt.GoNamed("watch", func() {
			vrt.WaitUntil(fmt.Sprintf("started-%d", n), func() bool { return w.Started >= n })
			vrt.Atomic(func() { w.Notes[fmt.Sprintf("started-%d", n)]++ })
		})
	}
}

func registerRound2() {
	// ---------------------------------------------------------------- C06 / C07
	// A connection whose client has gone away while one of its handlers is still blocked must not keep the
	// server from accepting and serving new connections: the blocked handler is released only by the new one.
	regSpec(&Spec{
		Name: "blocked-handler-of-gone-client-vs-new-connection", Props: []string{"C06", "C07", "C08", "C17"},
		Conns: []ConnSpec{
			{Ops: []string{"search"}, H: map[int]*HSpec{1: {WaitNote: "fresh-done"}}, Read: "none", Name: "faulty"},
			{Ops: []string{"bind", "search"}, Segs: []int{1, 1}, Expect: 2, Name: "fresh", WaitNote: "faulty-done"},
		},
		Check: bystandersServed,
		Quick: 2, Thor: 3,
	})
	// same with a bystander that was connected before and keeps being served
	regSpec(&Spec{
		Name: "blocked-handler-of-gone-client-vs-bystander", Props: []string{"C07", "C06"},
		Conns: []ConnSpec{
			{Ops: []string{"search"}, H: map[int]*HSpec{1: {WaitNote: "bystander-done"}}, Read: "none", End: "reset", Name: "faulty"},
			{Ops: []string{"search"}, Expect: 1, Name: "bystander", WaitNote: "faulty-done"},
		},
		Quick: 2, Thor: 3,
	})
	// A handler that is stuck inside Write (its client does not read: 1 KiB window, 70 kB frame) must not keep
	// the connection's later requests from being read and dispatched. The client only starts reading once
	// all three handlers have started.
	regSpec(&Spec{
		Name: "handler-stuck-in-write-vs-later-requests", Props: []string{"C06", "C05"},
		Conns: []ConnSpec{{
			Ops: []string{"search", "bind", "modify"}, Segs: []int{1, 1, 1},
			H:      map[int]*HSpec{1: {Frames: []int{70000}}, 2: {WaitStarted: 3}, 3: {WaitStarted: 3}},
			Expect: 4, RecvBuf: 1024, ReadNote: "started-3",
		}},
		Extra: watchStarted(3),
		Quick: 2, Thor: 3,
	})

	// ---------------------------------------------------------------- C10
	// the unbind handler panics (recovered): the connection still ends, the pipelined request is not served
	regSpec(&Spec{
		Name: "unbind-handler-panics-then-request", Props: []string{"C10", "C07", "C08", "C12"},
		Conns: []ConnSpec{{Ops: []string{"bind", "unbind", "search"}, H: map[int]*HSpec{2: {Panic: "before"}}, Read: "all"}},
		Quick: 2, Thor: 3,
	})
	regSpec(&Spec{
		Name: "unbind-handler-panics-then-request-split", Props: []string{"C10"},
		Conns: []ConnSpec{{Ops: []string{"unbind", "search", "bind"}, Segs: []int{1, 1, 1}, H: map[int]*HSpec{1: {Panic: "before"}}, Read: "all"}},
		Quick: 2, Thor: 3,
	})
	// an Unbind with message ID 0 is an Unbind
	for _, route := range []bool{true, false} {
		regSpec(&Spec{
			Name: fmt.Sprintf("unbind-message-id-0-route%v", route), Props: []string{"C10"},
			Srv:   SrvOpts{NoUnbindRoute: !route},
			Conns: []ConnSpec{{Ops: []string{"bind", "unbind0", "search"}, Read: "all"}},
			Quick: 2, Thor: 3,
		})
	}
	// Unbind while an earlier handler is stuck writing to a client that reads late
	regSpec(&Spec{
		Name: "unbind-while-earlier-handler-writes", Props: []string{"C10", "C08"},
		Conns: []ConnSpec{{
			Ops: []string{"search", "unbind", "bind"}, Segs: []int{1, 2},
			H:    map[int]*HSpec{1: {Yields: 1, Frames: []int{5000, 10}}},
			Read: "all",
		}},
		Quick: 2, Thor: 3,
	})

	// a slow unbind handler is a handler of its connection: closed / reported / Stop returns only after it
	regSpec(&Spec{
		Name: "unbind-slow-handler", Props: []string{"C10", "C08", "C12"},
		Conns: []ConnSpec{{Ops: []string{"bind", "unbind"}, H: map[int]*HSpec{2: {Yields: 3}}, Read: "all"}},
		Quick: 2, Thor: 3,
	})
	regSpec(&Spec{
		Name: "stop-while-unbind-handler-runs", Props: []string{"C12", "C08", "C10"},
		Srv:      SrvOpts{OnCloseYields: 1},
		Conns:    []ConnSpec{{Ops: []string{"unbind"}, H: map[int]*HSpec{1: {Yields: 3}}, Read: "all"}},
		StopWhen: "note:unbind-started", Quick: 2, Thor: 3,
	})

	// ---------------------------------------------------------------- C06: a blocked handler of every route kind
	// (the route kinds take different paths through the mux: matched route, default route)
	for _, op := range []string{"bind", "search", "modify", "add", "delete", "whoami", "unknownext", "compare-default"} {
		first := op
		srv := SrvOpts{}
		if op == "compare-default" {
			continue // an unsupported operation never reaches a route
		}
		regSpec(&Spec{
			Name: "blocked-" + op + "-handler-vs-later-requests", Props: []string{"C06"}, Srv: srv,
			Conns: []ConnSpec{{Ops: []string{first, "bind", "search"}, Segs: []int{1, 1, 1}, H: map[int]*HSpec{1: {WaitStarted: 3}}, Expect: 3}},
			Quick: 2, Thor: 3,
		})
		regSpec(&Spec{
			Name: "blocked-" + op + "-handler-vs-other-connection", Props: []string{"C06", "C07"}, Srv: srv,
			Conns: []ConnSpec{
				{Ops: []string{first}, H: map[int]*HSpec{1: {WaitNote: "fresh-done"}}, Expect: 1, Name: "faulty"},
				{Ops: []string{"bind", "search"}, Segs: []int{1, 1}, Expect: 2, Name: "fresh"},
			},
			Quick: 2, Thor: 3,
		})
	}

	// ---------------------------------------------------------------- C07: what a handler panics with
	for _, pv := range []string{"error", "int", "struct", "stringer", "nilmap"} {
		regSpec(&Spec{
			Name: "panic-value-" + pv, Props: []string{"C07", "C08"},
			Conns: []ConnSpec{
				{Ops: []string{"bind", "search"}, H: map[int]*HSpec{2: {Panic: "before", PanicVal: pv}}, Expect: 1, EndNote: "panicked", Name: "faulty"},
				{Ops: []string{"search"}, Expect: 1, Name: "bystander", EndNote: "faulty-done"},
				{Ops: []string{"bind", "search"}, Segs: []int{1, 1}, Expect: 2, Name: "fresh", After: 2},
			},
			Check: bystandersServed,
			Quick: 2, Thor: 3,
		})
	}
	// a client that stalls in the TLS handshake of a TLS listener (nothing sent / half a record) is a fault on
	// its own connection only
	for _, stall := range []string{"listener-nohello", "listener-halfhello"} {
		regSpec(&Spec{
			Name: "tls-" + stall + "-vs-other-connections", Props: []string{"C07", "C17", "C18"},
			Srv: SrvOpts{TLS: getPKI().ServerCfg},
			Conns: []ConnSpec{
				{TLS: stall, End: "stay", EndNote: "fresh-done", Name: "faulty"},
				{TLS: "listener", Ops: []string{"bind", "search"}, Segs: []int{1, 1}, Expect: 2, Name: "fresh", WaitNote: "faulty-connected"},
			},
			Extra: func(w *World) {
				vrt.GoNamed("watch", func() {
					vrt.WaitUntil("accepted", func() bool { return vnet.Accepted() >= 1 })
					vrt.Atomic(func() { w.Notes["faulty-connected"]++ })
				})
			},
			Check: bystandersServed,
			Quick: 2, Thor: 3,
		})
	}

	// ---------------------------------------------------------------- C05: frame sizes around buffer boundaries
	// the frame is the last thing its handler writes (no final response behind it that would flush it out)
	for _, n := range []int{4000, 4080, 4100, 8192, 16300, 16400, 20000} {
		regSpec(&Spec{
			Name: fmt.Sprintf("last-frame-of-%d-bytes", n), Props: []string{"C05", "C04"},
			Conns: []ConnSpec{{Ops: []string{"search"}, H: map[int]*HSpec{1: {Frames: []int{n}, NoFinal: true}}, Expect: 1}},
			Quick: 2, Thor: 3,
		})
	}
	for _, pr := range [][2]int{{5000, 5000}, {5000, 12000}, {12000, 5000}, {100, 9000}} {
		regSpec(&Spec{
			Name: fmt.Sprintf("two-writers-last-frames-%d-%d", pr[0], pr[1]), Props: []string{"C05", "C04"},
			Conns: []ConnSpec{{Ops: []string{"search", "search"}, H: map[int]*HSpec{1: {WaitStarted: 2, Frames: []int{pr[0]}, NoFinal: true}, 2: {WaitStarted: 2, Frames: []int{pr[1]}, NoFinal: true}}, Expect: 2}},
			Quick: 2, Thor: 3,
		})
	}
	// a handler in the middle of a large write (client with a 1 KiB window, reading late) when a StartTLS request
	// arrives: not a conforming client, but the writers of one connection still have to exclude each other
	regSpec(&Spec{
		Name: "starttls-request-while-a-handler-writes", Props: []string{"C05", "C13", "C15"},
		Conns: []ConnSpec{{Ops: []string{"search", "starttls-silent"}, Segs: []int{1}, H: map[int]*HSpec{1: {Frames: []int{70000}}}, Read: "none", RecvBuf: 1024}},
		Quick: 2, Thor: 3,
	})

	// ---------------------------------------------------------------- C13: StartTLS served by the default route
	for _, y := range []int{0, 2} {
		regSpec(&Spec{
			Name: fmt.Sprintf("starttls-via-default-route-y%d", y), Props: []string{"C13", "C06"},
			Srv:   SrvOpts{OnlyRoutes: []string{"bind", "search", "default", "unbind"}},
			Conns: []ConnSpec{{Ops: []string{"bind", "starttls", "bind", "search"}, Segs: []int{1, 1, 1}, H: map[int]*HSpec{2: {Yields: y, YieldsAfter: y}}, Expect: 4}},
			Check: startTLSCheck(1), Quick: 2, Thor: 3,
		})
	}
	// many sessions fail their handshake one after the other, then a conforming one upgrades (nothing a failed
	// handshake holds on to may run out)
	{
		var conns []ConnSpec
		for i := 0; i < 20; i++ {
			c := ConnSpec{Ops: []string{"starttls-badhello"}, Read: "none", Name: fmt.Sprintf("bad%d", i+1)}
			if i > 0 {
				c.After = i
			}
			conns = append(conns, c)
		}
		conns = append(conns, ConnSpec{Ops: []string{"starttls", "bind"}, Expect: 2, Name: "good", After: 20})
		regSpec(&Spec{
			Name: "starttls-after-20-failed-handshakes", Props: []string{"C13", "C07"},
			Conns: conns,
			Check: func(x *vrt.Sched, w *World) []Finding {
				for _, c := range w.Clients {
					if c.Name == "good" && w.Notes["good-upgraded"] == 0 && !x.Deadlock && x.Crash == nil {
						return []Finding{{"C13", "a conforming StartTLS session fails after other sessions failed their handshakes", fmt.Sprintf("log %v", x.Log)}}
					}
				}
				return nil
			},
			Quick: 0, Thor: 1, MaxPts: 2000000,
		})
	}

	// ---------------------------------------------------------------- C09: the router is replaced while connections exist
	regSpec(&Spec{
		// C15 is stated "with routes registered before Run": Router at run time is outside it (Run reads
		// s.router without the lock that Router writes it under - noted in DESIGN.md, not a finding)
		NoRaces: true,
		Name:    "router-replaced-between-connections", Props: []string{"C09", "C08", "C03"},
		Conns: []ConnSpec{
			{Ops: []string{"bind", "search"}, Segs: []int{1, 1}, Sync: true, Expect: 2, EndNote: "c2-done"},
			{Ops: []string{"bind", "search"}, Segs: []int{1, 1}, Expect: 2, WaitNote: "router-replaced"},
		},
		Extra: func(w *World) {
			vrt.GoNamed("reconfigure", func() {
				vrt.WaitUntil("first-served", func() bool { return w.Finished >= 1 })
				_ = w.Srv.Router(w.buildMux(w.Opts))
				vrt.Atomic(func() { w.Notes["router-replaced"]++ })
			})
		},
		Quick: 2, Thor: 3,
	})

	// ---------------------------------------------------------------- C10: Unbind after trouble earlier on the connection
	regSpec(&Spec{
		Name: "unbind-after-recovered-handler-panic", Props: []string{"C10", "C08", "C11"},
		Conns: []ConnSpec{{Ops: []string{"bind", "search", "unbind", "bind"}, Segs: []int{1, 1, 2}, Sync: false, H: map[int]*HSpec{2: {Panic: "before"}}, Read: "all"}},
		Quick: 2, Thor: 3,
	})
	regSpec(&Spec{
		Name: "unbind-after-failed-response-write", Props: []string{"C10", "C08", "C12", "C05"},
		Srv:   SrvOpts{WriteTimeout: secs(5)},
		Conns: []ConnSpec{{IdleBefore: 10, Ops: []string{"bind", "unbind", "search"}, Segs: []int{1, 2}, H: map[int]*HSpec{1: {YieldsAfter: 1}}, Read: "all"}},
		Quick: 2, Thor: 3,
	})
	// ---------------------------------------------------------------- C11: Stop after response writes failed
	regSpec(&Spec{
		Name: "stop-after-failed-response-writes", Props: []string{"C11", "C08", "C05"},
		Srv:         SrvOpts{WriteTimeout: secs(5)},
		Conns:       []ConnSpec{{IdleBefore: 10, Ops: []string{"bind", "bind", "search"}, Segs: []int{1, 1, 1}, H: map[int]*HSpec{3: {Frames: []int{10, 10}}}, Read: "none", End: "stay"}},
		ClientsIdle: true, Quick: 2, Thor: 3,
	})
	regSpec(&Spec{
		Name: "stop-after-client-left-mid-search", Props: []string{"C11", "C08"},
		Conns: []ConnSpec{{Ops: []string{"search"}, H: map[int]*HSpec{1: {WaitNote: "c1-done", Frames: []int{10, 10, 10}}}, Read: "none", End: "reset"}},
		Quick: 2, Thor: 3,
	})

	// ---------------------------------------------------------------- C03: a request with message ID 0 is a request
	for _, op := range []string{"bind", "search", "modify", "delete", "whoami", "unknownext"} {
		regSpec(&Spec{
			Name: "message-id-0-" + op, Props: []string{"C03", "C06", "C11"},
			Conns: []ConnSpec{{Ops: []string{"bind", op + "@0", "search"}, Segs: []int{1, 1, 1}, Expect: 3}},
			Quick: 2, Thor: 3,
		})
	}
	regSpec(&Spec{
		Name: "message-id-0-without-route", Props: []string{"C03"},
		Srv:   SrvOpts{NoDefaultRoute: true, OnlyRoutes: []string{"bind", "unbind"}},
		Conns: []ConnSpec{{Ops: []string{"bind", "delete@0", "bind"}, Segs: []int{1, 1, 1}, Expect: 3}},
		Quick: 2, Thor: 3,
	})

	// ---------------------------------------------------------------- fourth round
	// one ResponseWriter used by several goroutines of its handler, with a debug-level logger
	regSpec(&Spec{
		Name: "handler-fans-out-over-one-response-writer", Props: []string{"C15", "C05", "C04"},
		Srv:   SrvOpts{Debug: true},
		Conns: []ConnSpec{{Ops: []string{"search", "bind"}, H: map[int]*HSpec{1: {Fan: 2, Frames: []int{10, 10, 5000, 10}}}, Expect: 6}},
		Quick: 2, Thor: 3,
	})
	// TLS connections whose client goes away without a close_notify (closing such a connection returns an
	// error): still closed, reported, and all of it before Stop returns
	regSpec(&Spec{
		Name: "stop-after-tls-clients-reset", Props: []string{"C12", "C08", "C09"},
		Srv: SrvOpts{TLS: getPKI().ServerCfg, OnCloseYields: 1},
		Conns: []ConnSpec{
			{TLS: "listener", Ops: []string{"bind"}, Expect: 1, End: "reset"},
			{TLS: "listener", Ops: []string{"bind"}, Expect: 1, End: "stay"},
			{TLS: "listener", Ops: []string{"search"}, Expect: 1},
		},
		ClientsIdle: true, Quick: 2, Thor: 3,
	})
	// Unbind on several connections of one server: the unbind handler runs once for each
	regSpec(&Spec{
		Name: "unbind-on-three-connections", Props: []string{"C10", "C08"},
		Conns: []ConnSpec{
			{Ops: []string{"bind", "unbind"}, Read: "all"},
			{Ops: []string{"unbind", "search"}, Read: "all", After: 1},
			{Ops: []string{"search", "unbind"}, Read: "all"},
		},
		Quick: 2, Thor: 3,
	})
	// the unbind route is replaced while a connection is open: the handler registered when the Unbind is read runs
	regSpec(&Spec{
		Name: "unbind-route-replaced-while-connected", Props: []string{"C10", "C03"},
		Conns:          []ConnSpec{{Ops: []string{"bind", "unbind"}, Segs: []int{1, 1}, Sync: true, Read: "all", SendNote: "unbind-route-replaced"}},
		ReplacedUnbind: true, NoRaces: true,
		Extra: func(w *World) {
			vrt.GoNamed("reconfigure", func() {
				vrt.WaitUntil("first-served", func() bool { return w.Finished >= 1 })
				w.ReplaceUnbindRoute()
				vrt.Atomic(func() { w.Notes["unbind-route-replaced"]++ })
			})
		},
		Quick: 2, Thor: 3,
	})
	// a search handler that writes an entry and then waits until the client has seen it - on a plain connection,
	// on a TLS listener and inside a StartTLS tunnel
	for _, tr := range []string{"plain", "tls-listener", "starttls"} {
		c := ConnSpec{Ops: []string{"search"}, H: map[int]*HSpec{1: {Frames: []int{10}, WaitMid: "c1-saw-the-entry"}}, AckAt: 1, AckNote: "c1-saw-the-entry", Expect: 2}
		srv := SrvOpts{}
		var chk func(x *vrt.Sched, w *World) []Finding
		switch tr {
		case "tls-listener":
			c.TLS = "listener"
			srv.TLS = getPKI().ServerCfg
		case "starttls":
			c.Ops = []string{"starttls", "search"}
			c.H = map[int]*HSpec{2: {Frames: []int{10}, WaitMid: "c1-saw-the-entry"}}
			c.AckAt, c.Expect = 2, 3
			chk = startTLSCheck(1)
		}
		regSpec(&Spec{
			Name: "entry-is-delivered-while-its-handler-goes-on-" + tr, Props: []string{"C13", "C05", "C04"}, Srv: srv,
			Conns: []ConnSpec{c}, Check: chk, Quick: 2, Thor: 3,
		})
	}
	// a connection whose client has gone is torn down while another connection still waits for its handler:
	// the second teardown must not wait for the first
	regSpec(&Spec{
		Name: "teardown-does-not-wait-for-another-connection", Props: []string{"C08", "C06", "C07"},
		Conns: []ConnSpec{
			{Ops: []string{"search"}, H: map[int]*HSpec{1: {WaitNote: "onclose-2"}}, Read: "none", Name: "faulty"},
			{Ops: []string{"bind"}, Expect: 1, Name: "bystander", WaitNote: "faulty-done"},
		},
		Quick: 2, Thor: 3,
	})
	// a handler of a connection that has been told to end (Unbind) writes late, while a newer connection is
	// being served: its frame goes to its own client
	regSpec(&Spec{
		Name: "late-write-after-unbind-vs-newer-connection", Props: []string{"C05", "C08", "C10"},
		Conns: []ConnSpec{
			{Ops: []string{"search", "unbind"}, H: map[int]*HSpec{1: {WaitNote: "fresh-answered", Frames: []int{10}}}, Read: "all", Name: "faulty", SendNote: ""},
			{Ops: []string{"bind", "search"}, Segs: []int{1, 1}, AckAt: 1, AckNote: "fresh-answered", Expect: 2, Name: "fresh", WaitNote: "unbind-started", EndNote: "faulty-done"},
		},
		Quick: 2, Thor: 3,
	})
	// Stop with a client that pipelines and does not read, on a server with a write timeout
	regSpec(&Spec{
		Name: "stop-with-pipelining-client-that-does-not-read", Props: []string{"C11", "C08"},
		Srv:      SrvOpts{WriteTimeout: secs(5)},
		Conns:    []ConnSpec{{Ops: []string{"search", "bind", "bind", "bind"}, H: map[int]*HSpec{1: {Frames: []int{70000}}}, Read: "none", RecvBuf: 1024, End: "stay"}},
		StopWhen: "note:started-1", Extra: watchStarted(1),
		ClientsIdle: true, Quick: 2, Thor: 3,
	})
	// request objects kept beyond their connection
	regSpec(&Spec{
		Name: "requests-kept-after-their-connection-closed", Props: []string{"C09"},
		Conns: []ConnSpec{
			{Ops: []string{"bind", "search"}, Expect: 2},
			{Ops: []string{"bind"}, Expect: 1, After: 1},
			{Ops: []string{"search"}, Expect: 1, After: 2},
		},
		Quick: 2, Thor: 3,
	})

	// a route is registered on the server's mux while a handler runs and further requests arrive: they are
	// dispatched all the same (C15 is stated for routes registered before Run: races are not reported here)
	regSpec(&Spec{
		Name: "route-registered-while-a-handler-runs", Props: []string{"C03", "C06"}, NoRaces: true,
		Conns: []ConnSpec{
			{Ops: []string{"search"}, H: map[int]*HSpec{1: {WaitNote: "fresh-done"}}, Expect: 1, Name: "faulty"},
			{Ops: []string{"bind", "search"}, Segs: []int{1, 1}, Expect: 2, Name: "fresh", WaitNote: "registration-started"},
		},
		Extra: func(w *World) {
			vrt.GoNamed("reconfigure", func() {
				vrt.WaitUntil("handler-running", func() bool { return w.Started >= 1 })
				vrt.Atomic(func() { w.Notes["registration-started"]++ })
				_ = w.Mux.ExtendedOperation(w.handler("extended"), gldap.ExtendedOperationName("1.2.3.99"))
				vrt.Atomic(func() { w.Notes["registered"]++ })
			})
		},
		Quick: 2, Thor: 3,
	})

	// ---------------------------------------------------------------- C16: NewEntry called by several goroutines
	reg(&Scn{Name: "newentry-concurrent-calls", Props: []string{"C16"}, Quick: 2, Thor: -1, Body: func() {
		w := NewWorld()
		curSpec = nil
		_ = w
		maps := []map[string][]string{
			{"cn": {"a"}, "mail": {"a@x", "a2@x"}, "sn": {"A"}},
			{"uid": {"b"}, "description": {"d"}, "objectClass": {"top", "person"}, "zz": {"last"}},
			{"memberOf": {"g1", "g2"}, "name": {"c"}},
		}
		bad := ""
		done := 0
		for i, m := range maps {
			i, m := i, m
			vrt.GoNamed(fmt.Sprintf("caller%d", i+1), func() {
				defer func() { vrt.Atomic(func() { done++ }) }()
				for round := 0; round < 2; round++ {
					e := gldap.NewEntry(fmt.Sprintf("cn=e%d", i), m)
					var names []string
					for k := range m {
						names = append(names, k)
					}
					sort.Strings(names)
					ok := len(e.Attributes) == len(names)
					for j := 0; ok && j < len(names); j++ {
						a := e.Attributes[j]
						ok = a.Name == names[j] && len(a.Values) == len(m[names[j]])
						for v := 0; ok && v < len(a.Values); v++ {
							ok = a.Values[v] == m[names[j]][v] && v < len(a.ByteValues) && string(a.ByteValues[v]) == a.Values[v]
						}
					}
					if !ok {
						var got []string
						for _, a := range e.Attributes {
							got = append(got, fmt.Sprintf("%s=%v", a.Name, a.Values))
						}
						vrt.Atomic(func() {
							bad = fmt.Sprintf("caller %d round %d: got %v, want the attributes %v of its own map in name order", i+1, round, got, names)
						})
					}
				}
			})
		}
		vrt.WaitUntil("callers-done", func() bool { return done == len(maps) })
		if bad != "" {
			vrt.Logf("NEWENTRY-WRONG %s", bad)
		}
	}, Check: func(x *vrt.Sched, w *World) []Finding {
		for _, l := range x.Log {
			if strings.HasPrefix(l, "NEWENTRY-WRONG ") {
				return []Finding{{"C16", "NewEntry returns other attributes than its own map's (in name order) when calls overlap", l}}
			}
		}
		return nil
	}})

	// ---------------------------------------------------------------- C11
	// Stop while a StartTLS handler waits for a ClientHello that never comes
	regSpec(&Spec{
		Name: "stop-with-starttls-handshake-pending-client", Props: []string{"C11", "C13"},
		Conns:       []ConnSpec{{Ops: []string{"starttls-silent"}, H: map[int]*HSpec{1: {YieldsAfter: 2}}, End: "stay"}},
		ClientsIdle: true, Quick: 2, Thor: 3,
	})
	regSpec(&Spec{
		Name: "stop-races-starttls-handler", Props: []string{"C11", "C13"},
		Conns:    []ConnSpec{{Ops: []string{"bind", "starttls-silent"}, Segs: []int{1}, H: map[int]*HSpec{2: {Yields: 1, YieldsAfter: 1}}, End: "stay"}},
		StopWhen: "note:started-2", Extra: watchStarted(2),
		ClientsIdle: true, Quick: 2, Thor: 3,
	})
	// Stop with several idle connections while another one is being torn down (slow OnClose): every order in
	// which Stop visits the tracked connections is explored (map iteration is a choice point)
	for _, first := range []bool{true, false} {
		closing := ConnSpec{Ops: []string{"bind"}, Expect: 1, Name: "closing"}
		idle1 := ConnSpec{Ops: []string{"bind"}, Expect: 1, End: "stay", Name: "idle1"}
		idle2 := ConnSpec{End: "stay", Name: "idle2"}
		conns := []ConnSpec{closing, idle1, idle2}
		name := "stop-with-idle-clients-while-first-connection-closes"
		if !first {
			// the closing connection is accepted last
			closing.WaitNote = "idle1-done"
			conns = []ConnSpec{idle1, idle2, closing}
			name = "stop-with-idle-clients-while-last-connection-closes"
		}
		regSpec(&Spec{
			Name: name, Props: []string{"C11", "C12", "C08"},
			Srv:         SrvOpts{OnCloseYields: 2},
			Conns:       conns,
			StopWhen:    "note:onclose-running",
			ClientsIdle: true, Quick: 2, Thor: 3,
			Extra: func(w *World) {
				vrt.GoNamed("watch", func() {
					vrt.WaitUntil("onclose-running", func() bool { return w.OnCloseStarted > 0 })
					vrt.Atomic(func() { w.Notes["onclose-running"]++ })
				})
			},
		})
	}

	// ---------------------------------------------------------------- C17: served until Stop
	// a client that has connected and says nothing must not keep later clients from being accepted and served
	for _, n := range []int{1, 2} {
		conns := []ConnSpec{}
		for i := 0; i < n; i++ {
			conns = append(conns, ConnSpec{End: "stay", EndNote: "fresh-done", Name: fmt.Sprintf("silent%d", i+1)})
		}
		conns = append(conns, ConnSpec{Ops: []string{"bind", "search"}, Segs: []int{1, 1}, Expect: 2, Name: "fresh", WaitNote: "silent1-connected"})
		regSpec(&Spec{
			Name: fmt.Sprintf("silent-clients-%d-vs-new-connection", n), Props: []string{"C17", "C06", "C07"},
			Conns: conns,
			Extra: func(w *World) {
				vrt.GoNamed("watch", func() {
					vrt.WaitUntil("accepted", func() bool { return vnet.Accepted() >= n })
					vrt.Atomic(func() { w.Notes["silent1-connected"]++ })
				})
			},
			Check: func(x *vrt.Sched, w *World) []Finding {
				for _, c := range w.Clients {
					if c.Name == "fresh" && (c.DialErr != nil || len(c.Frames) != 2) {
						return []Finding{{"C17", "a connection made while the server is ready is not served (another client is connected and silent)", fmt.Sprintf("fresh got %d of 2 frames (dial error %v)", len(c.Frames), c.DialErr)}}
					}
				}
				return nil
			},
			Quick: 2, Thor: 3,
		})
	}
	// connections coming and going next to each other, with a debug-level logger (gldap logs - and may
	// compute what it logs - on paths that are silent otherwise)
	regSpec(&Spec{
		Name: "reconnect-churn-debug-logger", Props: []string{"C17", "C07", "C09", "C08"},
		Srv: SrvOpts{Debug: true},
		Conns: []ConnSpec{
			{Ops: []string{"bind"}, Expect: 1, Name: "faulty"},
			{Ops: []string{"bind", "search"}, Segs: []int{1, 1}, Expect: 2, Name: "fresh"},
			{Ops: []string{"search"}, Expect: 1, Name: "bystander", After: 1},
		},
		Check: bystandersServed,
		Quick: 2, Thor: 3,
	})
	regSpec(&Spec{
		Name: "stop-races-close-and-accept-debug-logger", Props: []string{"C11", "C12", "C17"},
		Srv: SrvOpts{Debug: true},
		Conns: []ConnSpec{
			{Ops: []string{"bind"}, Expect: 1},
			{Ops: []string{"bind"}, Read: "all", WaitNote: "c1-done"},
		},
		StopWhen: "note:c1-done", Quick: 2, Thor: 3,
	})

	// ---------------------------------------------------------------- C12 / C15: TLS listener
	regSpec(&Spec{Name: "stop-no-connections-tls-listener", Props: []string{"C11", "C12", "C15"}, Srv: SrvOpts{TLS: getPKI().ServerCfg}, StopWhen: "now", Quick: -1, Thor: -1})
	regSpec(&Spec{
		Name: "stop-races-accept-tls-listener", Props: []string{"C12", "C11", "C15"},
		Srv:      SrvOpts{TLS: getPKI().ServerCfg},
		Conns:    []ConnSpec{{TLS: "listener", Ops: []string{"bind"}, Read: "all"}},
		StopWhen: "now", Quick: 2, Thor: 3,
	})

	// ---------------------------------------------------------------- C13
	// A request sent in the clear directly behind the StartTLS request (same write) is not part of the
	// protected session: it must never be served as if it had come through the tunnel.
	for _, behind := range []string{"bind", "search"} {
		behind := behind
		regSpec(&Spec{
			Name: "starttls-clear-request-behind-" + behind, Props: []string{"C13"},
			Conns:    []ConnSpec{{Ops: []string{"starttls", "bind"}, ClearBehind: behind, Read: "all"}},
			StopWhen: "note:c1-tunnel-answer", Quick: 2, Thor: 3,
			Extra: func(w *World) {
				vrt.GoNamed("watch", func() {
					// the request sent through the tunnel has been answered: everything the server was going to do
					// with the bytes it had before the upgrade has happened by now or will happen before Stop returns
					vrt.WaitUntil("tunnel-answer", func() bool {
						for _, wr := range w.Writes {
							if wr.MsgID == msgID(0, 2) && wr.OK {
								return true
							}
						}
						return false
					})
					vrt.Atomic(func() { w.Notes["c1-tunnel-answer"]++ })
				})
			},
			Check: func(x *vrt.Sched, w *World) []Finding {
				var fs []Finding
				for _, d := range w.Dispatch {
					if d.MsgID == msgID(0, 90) {
						fs = append(fs, Finding{"C13", "a request received in the clear behind the StartTLS request is served after the upgrade", fmt.Sprintf("%+v; log %v", d, x.Log)})
					}
				}
				return fs
			},
		})
	}
	// concurrency inside the tunnel: a handler that waits for the next request of the tunnel to start
	regSpec(&Spec{
		Name: "starttls-tunnel-handlers-rendezvous", Props: []string{"C13", "C06"},
		Conns: []ConnSpec{{Ops: []string{"bind", "starttls", "search", "bind", "modify"}, Segs: []int{1, 1, 1, 1},
			H: map[int]*HSpec{3: {WaitStarted: 5}, 4: {WaitStarted: 5}}, Expect: 5}},
		Check: startTLSCheck(1), Quick: 2, Thor: 3,
	})

	// ---------------------------------------------------------------- C14: one control object on several responses
	for _, kind := range ctlKinds {
		kind := kind
		chk := func(x *vrt.Sched, w *World) []Finding {
			if x.Deadlock || x.Crash != nil {
				return nil
			}
			want := newCtl(kind).Encode().Bytes()
			var fs []Finding
			for _, c := range w.Clients {
				for _, f := range c.Frames {
					r, err := codec.ParseResponse(f)
					if err != nil {
						fs = append(fs, Finding{"C14", "a response carrying a shared control does not parse", fmt.Sprintf("client %s: %v: % x", c.Name, err, trunc(f))})
						continue
					}
					if r.IsEntry {
						continue
					}
					if len(r.Controls) != 1 || !bytes.Equal(r.Controls[0].Bytes(), want) {
						got := [][]byte{}
						for _, n := range r.Controls {
							got = append(got, n.Bytes())
						}
						fs = append(fs, Finding{"C14", "a control object attached to several responses does not reach every client unchanged", fmt.Sprintf("client %s message %d: controls % x, want % x", c.Name, r.MsgID, got, want)})
					}
				}
			}
			return fs
		}
		regSpec(&Spec{
			Name: "shared-control-two-connections-" + kind, Props: []string{"C14", "C04"},
			Conns: []ConnSpec{
				{Ops: []string{"bind"}, H: map[int]*HSpec{1: {WaitStarted: 2, Ctl: kind}}, Expect: 1},
				{Ops: []string{"search"}, H: map[int]*HSpec{1: {WaitStarted: 2, Ctl: kind}}, Expect: 1},
			},
			Check: chk, Quick: 2, Thor: 3,
		})
		regSpec(&Spec{
			Name: "shared-control-one-connection-" + kind, Props: []string{"C14", "C04"},
			Conns: []ConnSpec{
				{Ops: []string{"bind", "search", "bind"}, H: map[int]*HSpec{1: {WaitStarted: 3, Ctl: kind}, 2: {WaitStarted: 3, Ctl: kind}, 3: {Ctl: kind}}, Expect: 3},
			},
			Check: chk, Quick: 2, Thor: 3,
		})
	}

	// ---------------------------------------------------------------- C19: binds in flight at the same time
	registerDirBinds()
}

type dirBind struct {
	name, dn, pw string
	want         int64
}

func registerDirBinds() {
	alice := "cn=alice,ou=people,dc=example,dc=org"
	bob := "cn=bob,ou=people,dc=example,dc=org"
	binds := []dirBind{
		{"alice-right", alice, "password", 0},
		{"alice-wrong", alice, "nope", 49},
		{"bob-right", bob, "password", 0},
		{"unknown", "cn=mallory,ou=people,dc=example,dc=org", "password", 49},
		{"anonymous", "", "", 49},
		{"alice-empty", alice, "", 49},
	}
	pairs := [][2]int{{0, 1}, {1, 2}, {3, 2}, {4, 0}, {5, 2}, {0, 2}, {3, 1}}
	for _, sameConn := range []bool{false, true} {
		for _, pr := range pairs {
			a, b := binds[pr[0]], binds[pr[1]]
			sameConn := sameConn
			name := "dir-binds-" + a.name + "-vs-" + b.name
			if sameConn {
				name += "-one-connection"
			}
			var results map[int64]int64
			reg(&Scn{Name: name, Props: []string{"C19", "C15"}, Quick: 2, Thor: 3, Body: func() {
				w := NewWorld()
				vrt.PermuteMaps = false
				curSpec = nil
				results = map[int64]int64{}
				t := &harnessT{}
				logger := hclog.New(&hclog.LoggerOptions{Level: hclog.Off, Output: w.LogBuf})
				users := testdirectory.NewUsers(t, []string{"alice", "bob"})
				d := testdirectory.VNew(t, logger, testdirectory.WithDefaults(t, &testdirectory.Defaults{Users: users}))
				mux, err := d.VMux()
				if err != nil {
					panic(err)
				}
				srv, _ := gldap.NewServer(gldap.WithLogger(logger))
				_ = srv.Router(mux)
				w.Srv, w.Addr = srv, defaultAddr
				w.GoRun(SrvOpts{})
				done := 0
				record := func(cl *Cl) {
					for _, f := range cl.Frames {
						if r, err := codec.ParseResponse(f); err == nil {
							vrt.Atomic(func() { results[r.MsgID] = r.Code })
						}
					}
				}
				req := func(id int64, bd dirBind) []byte {
					return (&codec.Req{Op: "bind", MsgID: id, Version: 3, DN: bd.dn, Password: bd.pw}).Bytes()
				}
				if sameConn {
					vrt.GoNamed("c1", func() {
						defer func() { done += 2 }()
						cl := w.Dial("c1", 0)
						_ = cl.Send(append(req(1, a), req(2, b)...))
						cl.ReadFrames(2)
						record(cl)
						cl.Close()
					})
				} else {
					for i, bd := range []dirBind{a, b} {
						i, bd := i, bd
						vrt.GoNamed(fmt.Sprintf("c%d", i+1), func() {
							defer func() { done++ }()
							cl := w.Dial(fmt.Sprintf("c%d", i+1), 0)
							_ = cl.Send(req(int64(i+1), bd))
							cl.ReadFrames(1)
							record(cl)
							cl.Close()
						})
					}
				}
				vrt.WaitUntil("done", func() bool { return done == 2 })
				w.Stop()
			}, Check: func(x *vrt.Sched, w *World) []Finding {
				if x.Deadlock || x.Crash != nil || x.Horizon {
					return nil
				}
				var fs []Finding
				for i, bd := range []dirBind{a, b} {
					got, ok := results[int64(i+1)]
					switch {
					case !ok:
						fs = append(fs, Finding{"C19", "a bind that is in flight together with another bind gets no answer", fmt.Sprintf("Bind(%s,%q)", bd.dn, bd.pw)})
					case got != bd.want && bd.want == 49:
						fs = append(fs, Finding{"C19", "a bind with wrong credentials succeeds while another bind is in flight", fmt.Sprintf("Bind(%s,%q) = %d next to Bind(%s,...)", bd.dn, bd.pw, got, []dirBind{b, a}[i].dn)})
					case got != bd.want:
						fs = append(fs, Finding{"C19", "a bind with the right credentials fails while another bind is in flight", fmt.Sprintf("Bind(%s,%q) = %d", bd.dn, bd.pw, got)})
					}
				}
				return fs
			}})
		}
	}
}
