package main

import (
	"fmt"

	vrt "verif/rt"
)

// Scenarios added after the second round of seeded changes: each closes a gap that a change nobody had
// planned for slipped through (see DESIGN.md section 10).

func init() { moreScenarios = append(moreScenarios, registerRound2) }

// watchStarted raises note "started-<n>" once n handlers have started.
func watchStarted(n int) func(w *World) {
	return func(w *World) {
		vrt.GoNamed("watch", func() {
			vrt.WaitUntil(fmt.Sprintf("started-%d", n), func() bool { return w.Started >= n })
			vrt.Atomic(func() { w.Notes[fmt.Sprintf("started-%d", n)]++ })
		})
	}
}

func registerRound2() {
	// ---------------------------------------------------------------- C06 / C07
	// A connection whose client has gone away while one of its handlers is still blocked must not keep the
	// server from accepting and serving new connections: the blocked handler is released only by the new one.
	regSpec(&Spec{
		Name: "blocked-handler-of-gone-client-vs-new-connection", Props: []string{"C06", "C07", "C08"},
		Conns: []ConnSpec{
			{Ops: []string{"search"}, H: map[int]*HSpec{1: {WaitNote: "fresh-done"}}, Read: "none", Name: "faulty"},
			{Ops: []string{"bind", "search"}, Segs: []int{1, 1}, Expect: 2, Name: "fresh", WaitNote: "faulty-done"},
		},
		Check: bystandersServed,
		Quick: 2, Thor: 3,
	})
	// same with a bystander that was connected before and keeps being served
	regSpec(&Spec{
		Name: "blocked-handler-of-gone-client-vs-bystander", Props: []string{"C07", "C06"},
		Conns: []ConnSpec{
			{Ops: []string{"search"}, H: map[int]*HSpec{1: {WaitNote: "bystander-done"}}, Read: "none", End: "reset", Name: "faulty"},
			{Ops: []string{"search"}, Expect: 1, Name: "bystander", WaitNote: "faulty-done"},
		},
		Quick: 2, Thor: 3,
	})
	// A handler that is stuck inside Write (its client does not read: 1 KiB window, 70 kB frame) must not keep
	// the connection's later requests from being read and dispatched. The client only starts reading once
	// all three handlers have started.
	regSpec(&Spec{
		Name: "handler-stuck-in-write-vs-later-requests", Props: []string{"C06", "C05"},
		Conns: []ConnSpec{{
			Ops: []string{"search", "bind", "modify"}, Segs: []int{1, 1, 1},
			H:      map[int]*HSpec{1: {Frames: []int{70000}}, 2: {WaitStarted: 3}, 3: {WaitStarted: 3}},
			Expect: 4, RecvBuf: 1024, ReadNote: "started-3",
		}},
		Extra: watchStarted(3),
		Quick: 2, Thor: 3,
	})

	// ---------------------------------------------------------------- C10
	// the unbind handler panics (recovered): the connection still ends, the pipelined request is not served
	regSpec(&Spec{
		Name: "unbind-handler-panics-then-request", Props: []string{"C10", "C07", "C08"},
		Conns: []ConnSpec{{Ops: []string{"bind", "unbind", "search"}, H: map[int]*HSpec{2: {Panic: "before"}}, Read: "all"}},
		Quick: 2, Thor: 3,
	})
	regSpec(&Spec{
		Name: "unbind-handler-panics-then-request-split", Props: []string{"C10"},
		Conns: []ConnSpec{{Ops: []string{"unbind", "search", "bind"}, Segs: []int{1, 1, 1}, H: map[int]*HSpec{1: {Panic: "before"}}, Read: "all"}},
		Quick: 2, Thor: 3,
	})
	// an Unbind with message ID 0 is an Unbind
	for _, route := range []bool{true, false} {
		regSpec(&Spec{
			Name: fmt.Sprintf("unbind-message-id-0-route%v", route), Props: []string{"C10"},
			Srv:   SrvOpts{NoUnbindRoute: !route},
			Conns: []ConnSpec{{Ops: []string{"bind", "unbind0", "search"}, Read: "all"}},
			Quick: 2, Thor: 3,
		})
	}
	// Unbind while an earlier handler is stuck writing to a client that reads late
	regSpec(&Spec{
		Name: "unbind-while-earlier-handler-writes", Props: []string{"C10", "C08"},
		Conns: []ConnSpec{{
			Ops: []string{"search", "unbind", "bind"}, Segs: []int{1, 2},
			H:    map[int]*HSpec{1: {Yields: 1, Frames: []int{5000, 10}}},
			Read: "all",
		}},
		Quick: 2, Thor: 3,
	})

	// ---------------------------------------------------------------- C11
	// Stop while a StartTLS handler waits for a ClientHello that never comes
	regSpec(&Spec{
		Name: "stop-with-starttls-handshake-pending-client", Props: []string{"C11", "C13"},
		Conns:       []ConnSpec{{Ops: []string{"starttls-silent"}, H: map[int]*HSpec{1: {YieldsAfter: 2}}, End: "stay"}},
		ClientsIdle: true, Quick: 2, Thor: 3,
	})
	regSpec(&Spec{
		Name: "stop-races-starttls-handler", Props: []string{"C11", "C13"},
		Conns:    []ConnSpec{{Ops: []string{"bind", "starttls-silent"}, Segs: []int{1}, H: map[int]*HSpec{2: {Yields: 1, YieldsAfter: 1}}, End: "stay"}},
		StopWhen: "note:started-2", Extra: watchStarted(2),
		ClientsIdle: true, Quick: 2, Thor: 3,
	})
	// Stop with several idle connections while another one is being torn down (slow OnClose): every order in
	// which Stop visits the tracked connections is explored (map iteration is a choice point)
	for _, first := range []bool{true, false} {
		closing := ConnSpec{Ops: []string{"bind"}, Expect: 1, Name: "closing"}
		idle1 := ConnSpec{Ops: []string{"bind"}, Expect: 1, End: "stay", Name: "idle1"}
		idle2 := ConnSpec{End: "stay", Name: "idle2"}
		conns := []ConnSpec{closing, idle1, idle2}
		name := "stop-with-idle-clients-while-first-connection-closes"
		if !first {
			// the closing connection is accepted last
			closing.WaitNote = "idle1-done"
			conns = []ConnSpec{idle1, idle2, closing}
			name = "stop-with-idle-clients-while-last-connection-closes"
		}
		regSpec(&Spec{
			Name: name, Props: []string{"C11", "C12", "C08"},
			Srv:         SrvOpts{OnCloseYields: 2},
			Conns:       conns,
			StopWhen:    "note:onclose-running",
			ClientsIdle: true, Quick: 2, Thor: 3,
			Extra: func(w *World) {
				vrt.GoNamed("watch", func() {
					vrt.WaitUntil("onclose-running", func() bool { return w.OnCloseStarted > 0 })
					vrt.Atomic(func() { w.Notes["onclose-running"]++ })
				})
			},
		})
	}

	// ---------------------------------------------------------------- C12 / C15: TLS listener
	regSpec(&Spec{Name: "stop-no-connections-tls-listener", Props: []string{"C11", "C12", "C15"}, Srv: SrvOpts{TLS: getPKI().ServerCfg}, StopWhen: "now", Quick: -1, Thor: -1})
	regSpec(&Spec{
		Name: "stop-races-accept-tls-listener", Props: []string{"C12", "C11", "C15"},
		Srv:      SrvOpts{TLS: getPKI().ServerCfg},
		Conns:    []ConnSpec{{TLS: "listener", Ops: []string{"bind"}, Read: "all"}},
		StopWhen: "now", Quick: 2, Thor: 3,
	})

	// ---------------------------------------------------------------- C13
	// A request sent in the clear directly behind the StartTLS request (same write) is not part of the
	// protected session: it must never be served as if it had come through the tunnel.
	for _, behind := range []string{"bind", "search"} {
		behind := behind
		regSpec(&Spec{
			Name: "starttls-clear-request-behind-" + behind, Props: []string{"C13"},
			Conns:    []ConnSpec{{Ops: []string{"starttls", "bind"}, ClearBehind: behind, Read: "all"}},
			StopWhen: "note:c1-tunnel-answer", Quick: 2, Thor: 3,
			Extra: func(w *World) {
				vrt.GoNamed("watch", func() {
					// the request sent through the tunnel has been answered: everything the server was going to do
					// with the bytes it had before the upgrade has happened by now or will happen before Stop returns
					vrt.WaitUntil("tunnel-answer", func() bool {
						for _, wr := range w.Writes {
							if wr.MsgID == msgID(0, 2) && wr.OK {
								return true
							}
						}
						return false
					})
					vrt.Atomic(func() { w.Notes["c1-tunnel-answer"]++ })
				})
			},
			Check: func(x *vrt.Sched, w *World) []Finding {
				var fs []Finding
				for _, d := range w.Dispatch {
					if d.MsgID == msgID(0, 90) {
						fs = append(fs, Finding{"C13", "a request received in the clear behind the StartTLS request is served after the upgrade", fmt.Sprintf("%+v; log %v", d, x.Log)})
					}
				}
				return fs
			},
		})
	}
	// concurrency inside the tunnel: a handler that waits for the next request of the tunnel to start
	regSpec(&Spec{
		Name: "starttls-tunnel-handlers-rendezvous", Props: []string{"C13", "C06"},
		Conns: []ConnSpec{{Ops: []string{"bind", "starttls", "search", "bind", "modify"}, Segs: []int{1, 1, 1, 1},
			H: map[int]*HSpec{3: {WaitStarted: 5}, 4: {WaitStarted: 5}}, Expect: 5}},
		Check: startTLSCheck(1), Quick: 2, Thor: 3,
	})
}
