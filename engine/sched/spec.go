package main

import (
	"crypto/tls"
	"fmt"
	"io"
	"strings"
	"time"

	vrt "verif/rt"
)

// Spec is a data description of a closed scenario on the full fixture (NewServer + Router + Run over vnet).
type Spec struct {
	Name           string
	Props          []string
	Srv            SrvOpts
	Conns          []ConnSpec
	StopWhen       string // "clients-done" (default) | "now" (concurrently with the clients) | "note:<n>" | "never"
	SecondStop     bool   // a second thread calls Stop concurrently
	StopBeforeRun  bool   // Stop is called (and returns) before Run starts
	ExpectCrash    bool
	Quick, Thor    int
	MaxPts         int
	Extra          func(w *World) // extra threads (pollers, ...) spawned after the server
	Check          func(x *vrt.Sched, w *World) []Finding
	ClientsIdle    bool   // clients that "stay" never act again: a wait for them is a wait for the environment
	ReplacedUnbind bool   // the scenario replaces the unbind route before any Unbind is sent
	WriterRaceIs   string // a race on a connection's buffered writer in this scenario also counts for this property (two connections share a writer)
	NoRaces        bool   // the scenario leaves the precondition of C15 (e.g. Router called while serving): races are not reported
}

type ConnSpec struct {
	Ops           []string       // requests in send order
	Segs          []int          // send boundaries: numbers of requests per write (nil = each Write carries everything up to the next StartTLS)
	H             map[int]*HSpec // handler behaviour by request index (1-based)
	Expect        int            // plaintext frames to read before End (when Read == "")
	Read          string         // "" = read Expect frames | "all" = until EOF/error | "none"
	End           string         // "close" (default) | "reset" | "stay" | "half" (send half a frame, then stay)
	TLS           string         // "" | "listener" | "listener-nohello" | "listener-halfhello" | "plain-to-tls"
	TLSCfg        *tls.Config
	RecvBuf       int
	WaitNote      string
	IdleFor       int    // virtual seconds to sleep before End
	EndNote       string // wait for this note before End
	Sync          bool   // wait for the answers to everything sent so far before sending the next segment
	After         int    // >0: this connection is opened by the thread of connection number After (1-based) once that one has ended
	ReadNote      string // wait for this note after sending and before reading anything
	IdleBefore    int    // virtual seconds to sleep after connecting and before sending anything
	SendNote      string // wait for this note before sending the last segment
	DialAfter     int    // virtual seconds to sleep before connecting
	FragmentHello bool   // the TLS ClientHello leaves in three TCP segments
	LegacyTLS     bool   // the client offers TLS 1.0-1.1 only (RSA PKI)
	ReadFor       int    // with Read == "all": give up reading after this many virtual seconds without EOF
	IdleAfterSend int    // virtual seconds to sleep after sending and before reading anything
	AckAt         int    // after this many frames have been read, raise AckNote (then go on reading)
	AckNote       string
	// ClearBehind: a request sent in the clear in the same write as the StartTLS request, directly behind it
	// (request index 90); RFC 4511 4.14.1 forbids it, an attacker on the path can do it
	ClearBehind string
	Name        string
}

func msgID(ci, k int) int64 { return int64((ci+1)*1000 + k) }

// opMsgID: the message ID the client uses for request k of connection ci ("unbind0" is an Unbind with
// message ID 0, which RFC 4511 reserves for unsolicited notifications but which a client can still send).
func opMsgID(op string, ci, k int) int64 {
	if isZeroID(op) {
		return 0
	}
	if isDupID(op) {
		return msgID(ci, k-1)
	}
	return msgID(ci, k)
}

// "<op>@dup" is <op> sent with the message ID of the request before it: RFC 4511 4.1.1.1 tells clients not to
// do that while the first is in progress, but the request is a well-formed request all the same.
func isDupID(op string) bool { return strings.HasSuffix(op, "@dup") }

// "<op>@0" is <op> sent with message ID 0; "unbind0" is the same for Unbind.
func isZeroID(op string) bool { return op == "unbind0" || strings.HasSuffix(op, "@0") }
func baseOp(op string) string {
	if op == "unbind0" {
		return "unbind"
	}
	return strings.TrimSuffix(strings.TrimSuffix(op, "@0"), "@dup")
}

func isUnbind(op string) bool { return op == "unbind" || op == "unbind0" }

func (sp *Spec) scn() *Scn {
	return &Scn{Name: sp.Name, Props: sp.Props, Quick: sp.Quick, Thor: sp.Thor, MaxPts: sp.MaxPts, Body: sp.body, Check: sp.check, Spec: sp, NoRaces: sp.NoRaces}
}

func (sp *Spec) check(x *vrt.Sched, w *World) []Finding {
	if sp.Check != nil {
		return sp.Check(x, w)
	}
	return nil
}

func (sp *Spec) body() {
	w := NewWorld()
	w.Notes["spec"] = 0
	curSpec = sp
	if sp.Srv.TLS == nil && needsStartTLS(sp) {
		w.TLSCfg = getPKI().ServerCfg
	}
	if sp.Srv.TLS != nil {
		w.TLSCfg = sp.Srv.TLS
	}
	if sp.Srv.StartTLS != nil {
		w.TLSCfg = sp.Srv.StartTLS
	}
	if sp.Srv.LegacyTLS {
		w.TLSCfg, _ = legacyPKI()
	}
	for ci := range sp.Conns {
		for _, h := range sp.Conns[ci].H {
			if h.Ctl != "" && w.SharedCtl[h.Ctl] == nil {
				w.SharedCtl[h.Ctl] = newCtl(h.Ctl)
			}
		}
	}
	o := sp.Srv
	if sp.StopBeforeRun {
		o.NoRun = true
	}
	w.StartServer(o)
	if sp.StopBeforeRun {
		w.Stop()
		w.GoRun(sp.Srv)
	}
	for ci := range sp.Conns {
		for k, h := range sp.Conns[ci].H {
			w.PerMsg[opMsgID(sp.Conns[ci].Ops[k-1], ci, k)] = h
		}
	}
	done, nthreads := 0, 0
	for ci := range sp.Conns {
		if sp.Conns[ci].After > 0 {
			continue
		}
		nthreads++
		ci := ci
		tname := connName(sp, ci)
		vrt.GoNamed(tname, func() {
			defer func() { vrt.Atomic(func() { done++ }) }()
			var chain func(i int)
			chain = func(i int) {
				cs := sp.Conns[i]
				name := connName(sp, i)
				runClient(w, i, name, &cs)
				vrt.Atomic(func() { w.Notes[name+"-done"]++ })
				for j := range sp.Conns {
					if sp.Conns[j].After == i+1 {
						chain(j)
					}
				}
			}
			chain(ci)
		})
	}
	if sp.Extra != nil {
		sp.Extra(w)
	}
	switch {
	case sp.StopWhen == "never":
		return
	case sp.StopWhen == "now":
	case len(sp.StopWhen) > 5 && sp.StopWhen[:5] == "note:":
		n := sp.StopWhen[5:]
		vrt.WaitUntil("stop-note", func() bool { return w.Notes[n] > 0 })
	default:
		vrt.WaitUntil("clients-done", func() bool { return done == nthreads })
	}
	if sp.SecondStop {
		vrt.GoNamed("stopper2", func() { w.Stop() })
	}
	vrt.SetThreadName("stopper")
	if !sp.StopBeforeRun {
		w.Stop()
	}
	vrt.Atomic(func() { w.Notes["stopped"]++ })
}

var curSpec *Spec

func needsStartTLS(sp *Spec) bool {
	for _, c := range sp.Conns {
		for _, o := range c.Ops {
			if o == "starttls" || o == "starttls-silent" || o == "starttls-badhello" || o == "starttls-badhello-alert" {
				return true
			}
		}
	}
	return false
}

func runClient(w *World, ci int, name string, cs *ConnSpec) {
	if cs.WaitNote != "" {
		vrt.WaitUntil(cs.WaitNote, func() bool { return w.Notes[cs.WaitNote] > 0 })
	}
	if cs.DialAfter > 0 {
		vrt.Sleep(secs(cs.DialAfter))
	}
	cl := w.Dial(name, cs.RecvBuf)
	if cl.DialErr != nil {
		return
	}
	cl.Tap()
	cl.FragmentHello = cs.FragmentHello
	ccfg := cs.TLSCfg
	if cs.LegacyTLS {
		_, ccfg = legacyPKI()
	}
	if ccfg == nil {
		ccfg = getPKI().ClientCfg
	}
	switch cs.TLS {
	case "listener":
		if err := cl.UpgradeTLS(ccfg); err != nil {
			vrt.Atomic(func() { w.Notes[name+"-handshake-failed"]++ })
			cl.Close()
			return
		}
	case "listener-halfhello":
		// the first bytes of a TLS handshake record, then silence
		_ = cl.Send([]byte{0x16, 0x03, 0x01, 0x02, 0x00, 0x01, 0x00})
	case "listener-nohello":
		// connect and send nothing
	}
	if cs.IdleBefore > 0 {
		vrt.Sleep(secs(cs.IdleBefore))
	}
	// send
	k := 0
	segs := cs.Segs
	si := 0
	var pending []byte
	flush := func() {
		if len(pending) > 0 {
			_ = cl.Send(pending)
			pending = nil
		}
	}
	inSeg := 0
	expectSoFar := 0
	for _, op := range cs.Ops {
		k++
		if op == "starttls" {
			flush()
			// a conforming client has nothing outstanding when it sends StartTLS (RFC 4511 4.14.1)
			if cs.Read != "none" {
				cl.ReadFrames(expectSoFar)
			}
			if cs.ClearBehind != "" {
				_ = cl.Send(append(reqBytes(op, msgID(ci, k)), reqBytes(cs.ClearBehind, msgID(ci, 90))...))
			} else {
				_ = cl.Send(reqBytes(op, msgID(ci, k)))
			}
			expectSoFar++
			if cs.Read == "none" {
				cl.ReadFrames(len(cl.Frames) + 1)
			} else {
				cl.ReadFrames(expectSoFar) // the StartTLS response, in plaintext
			}
			vrt.Atomic(func() { w.Notes[name+"-starttls-response"]++ })
			if err := cl.UpgradeTLS(ccfg); err != nil {
				vrt.Atomic(func() { w.Notes[name+"-handshake-failed"]++ })
				vrt.Logf("client %s handshake failed", name)
				cl.Close()
				return
			}
			vrt.Atomic(func() { w.Notes[name+"-upgraded"]++ })
			continue
		}
		if op == "starttls-badhello" {
			// the StartTLS request is answered, then the client sends something that is no ClientHello and leaves
			flush()
			_ = cl.Send(reqBytes("starttls", msgID(ci, k)))
			cl.ReadFrames(len(cl.Frames) + 1)
			_ = cl.Send([]byte{0x16, 0x03, 0x01, 0x00, 0x05, 0x01, 0x00, 0x00, 0x01, 0x00})
			continue
		}
		if op == "starttls-badhello-alert" {
			// as above, but the client stays: it reads the TLS alert the server answers with and goes on in the clear
			flush()
			_ = cl.Send(reqBytes("starttls", msgID(ci, k)))
			expectSoFar++
			cl.ReadFrames(expectSoFar)
			_ = cl.Send([]byte{0x16, 0x03, 0x01, 0x00, 0x05, 0x01, 0x00, 0x00, 0x01, 0x00})
			hdr := make([]byte, 5)
			if _, err := io.ReadFull(cl.NC, hdr); err == nil && hdr[0] == 0x15 {
				_, _ = io.ReadFull(cl.NC, make([]byte, int(hdr[3])<<8|int(hdr[4])))
				vrt.Atomic(func() { w.Notes[name+"-alert-read"]++ })
			}
			continue
		}
		if op == "tls-closewrite" {
			// the client ends its side of the TLS session only (close_notify) and keeps the TCP connection:
			// whatever it sends from now on travels in the clear
			flush()
			if cs.Read != "none" {
				cl.ReadFrames(expectSoFar)
			}
			if tc, ok := cl.NC.(*tls.Conn); ok {
				_ = tc.CloseWrite()
				// crypto/tls leaves a write deadline taken from the wall clock on the socket: not part of the model
				_ = cl.C.SetWriteDeadline(time.Time{})
				cl.NC = cl.C
				cl.Raw = true
				vrt.Atomic(func() { w.Notes[name+"-closewrite"]++ })
			}
			continue
		}
		if op == "starttls-silent" {
			// the StartTLS request is sent and answered, but the client never starts the handshake
			flush()
			if cs.Read != "none" {
				cl.ReadFrames(expectSoFar)
			}
			_ = cl.Send(reqBytes("starttls", msgID(ci, k)))
			cl.ReadFrames(len(cl.Frames) + 1)
			vrt.Atomic(func() { w.Notes[name+"-starttls-response"]++ })
			continue
		}
		pending = append(pending, reqBytes(baseOp(op), opMsgID(op, ci, k))...)
		expectSoFar += framesFor(cs.H[k])
		inSeg++
		if segs != nil && si < len(segs) && inSeg == segs[si] {
			if cs.SendNote != "" && si == len(segs)-1 {
				vrt.WaitUntil(cs.SendNote, func() bool { return w.Notes[cs.SendNote] > 0 })
			}
			flush()
			si++
			inSeg = 0
			if cs.Sync {
				cl.ReadFrames(expectSoFar)
			}
		}
	}
	flush()
	if cs.IdleAfterSend > 0 {
		vrt.Sleep(secs(cs.IdleAfterSend))
	}
	if cs.ReadNote != "" {
		vrt.WaitUntil(cs.ReadNote, func() bool { return w.Notes[cs.ReadNote] > 0 })
	}
	if cs.AckAt > 0 {
		cl.ReadFrames(cs.AckAt)
		if len(cl.Frames) >= cs.AckAt {
			vrt.Atomic(func() { w.Notes[cs.AckNote]++ })
		}
	}
	switch cs.Read {
	case "":
		if cs.Expect > 0 {
			cl.ReadFrames(cs.Expect)
		}
	case "all":
		if cs.ReadFor > 0 {
			_ = cl.NC.SetReadDeadline(vrt.Now().Add(secs(cs.ReadFor)))
		}
		cl.ReadAll()
	}
	if cs.IdleFor > 0 {
		vrt.Sleep(secs(cs.IdleFor))
	}
	if cs.EndNote != "" {
		vrt.WaitUntil(cs.EndNote, func() bool { return w.Notes[cs.EndNote] > 0 })
	}
	switch cs.End {
	case "", "close":
		cl.Close()
	case "reset":
		cl.C.Reset()
	case "half":
		b := reqBytes("bind", msgID(ci, 99))
		_ = cl.Send(b[:len(b)/2])
	case "stay":
	case "close-then-readall":
		cl.Close()

	}
}

func connName(sp *Spec, i int) string {
	if n := sp.Conns[i].Name; n != "" {
		return n
	}
	return fmt.Sprintf("c%d", i+1)
}

// realOK: the scenario can be replayed on real sockets (no modelled receive window, no virtual idle time,
// no harness-side extras that use the model's introspection).
func (sp *Spec) realOK() bool {
	if sp.Srv.ReadTimeout > 0 || sp.Srv.WriteTimeout > 0 || sp.Extra != nil || sp.ExpectCrash || sp.ClientsIdle || len(sp.Conns) == 0 || sp.MaxPts > 0 {
		return false
	}
	for _, c := range sp.Conns {
		if c.RecvBuf > 0 || c.IdleFor > 0 || c.IdleBefore > 0 || c.End == "stay" || c.End == "half" || c.ReadNote != "" || c.AckAt > 0 || c.SendNote != "" || c.DialAfter > 0 || c.IdleAfterSend > 0 || c.ReadFor > 0 {
			return false
		}
	}
	return true
}
