package main

import (
	"fmt"
	"strings"

	"verif/ev"
	vrt "verif/rt"
	"verif/shim/vnet"
)

func init() { moreScenarios = append(moreScenarios, registerRound5) }

// servedCheck: every client of the scenario that expects answers has got them (filed under prop).
func servedCheck(prop, what string) func(x *vrt.Sched, w *World) []Finding {
	return func(x *vrt.Sched, w *World) []Finding {
		if x.Deadlock || x.Crash != nil || x.Horizon {
			return nil
		}
		sp := curSpec
		var fs []Finding
		for _, cl := range w.Clients {
			for ci := range sp.Conns {
				if connName(sp, ci) == cl.Name && sp.Conns[ci].Expect > 0 && len(cl.Frames) < sp.Conns[ci].Expect {
					fs = append(fs, Finding{prop, what, fmt.Sprintf("client %s got %d of %d answers", cl.Name, len(cl.Frames), sp.Conns[ci].Expect)})
				}
			}
		}
		return fs
	}
}

func registerRound5() {
	// ---------------------------------------------------------------- C12 / C08: the unbind handler panicked and the
	// client is still there when Stop comes: the connection is closed and reported before Stop returns all the same
	regSpec(&Spec{
		Name: "stop-after-unbind-handler-panicked-client-stays", Props: []string{"C12", "C08"},
		Conns:       []ConnSpec{{Ops: []string{"bind", "unbind"}, H: map[int]*HSpec{2: {Panic: "before"}}, Expect: 1, EndNote: "panicked", End: "stay", Name: "faulty"}},
		ClientsIdle: true, Quick: 2, Thor: 3,
	})
	regSpec(&Spec{
		Name: "stop-after-unbind-handler-panicked-with-handler-in-flight", Props: []string{"C12", "C08"},
		Conns:       []ConnSpec{{Ops: []string{"search", "unbind"}, Segs: []int{1, 1}, H: map[int]*HSpec{1: {Yields: 2}, 2: {Panic: "before"}}, Expect: 1, EndNote: "panicked", End: "stay", Name: "faulty"}},
		ClientsIdle: true, Quick: 2, Thor: 3,
	})

	// ---------------------------------------------------------------- C17 / C15: something keeps polling Ready (a
	// health check) while clients connect, are served, and the server is stopped
	poller := func(n int) func(w *World) {
		return func(w *World) {
			vrt.GoNamed("poller", func() {
				for i := 0; i < n; i++ {
					_ = w.Srv.Ready()
				}
			})
		}
	}
	regSpec(&Spec{
		Name: "ready-polled-while-clients-connect", Props: []string{"C17", "C15", "C11"},
		Conns: []ConnSpec{{Ops: []string{"bind"}, Expect: 1}, {Ops: []string{"search"}, Expect: 1, After: 1}},
		Extra: poller(3), Check: servedCheck("C17", "a connection made while Ready reports true and before Stop is not served"),
		Quick: 2, Thor: 3,
	})
	regSpec(&Spec{
		Name: "ready-polled-while-run-returns", Props: []string{"C15", "C17", "C12"},
		StopWhen: "now", Extra: poller(3), Quick: 3, Thor: -1,
	})
	// a server with read / write timeouts: a client that connects later than the timeout after Run began is served
	for _, v := range []struct {
		name string
		o    SrvOpts
	}{{"read", SrvOpts{ReadTimeout: secs(5)}}, {"write", SrvOpts{WriteTimeout: secs(5)}}} {
		regSpec(&Spec{
			Name: "late-client-of-server-with-" + v.name + "-timeout", Props: []string{"C17", "C07"},
			Srv:   v.o,
			Conns: []ConnSpec{{Ops: []string{"bind"}, Expect: 1}, {Ops: []string{"bind", "search"}, Expect: 2, DialAfter: 6, Name: "late"}},
			Check: servedCheck("C17", "a connection made while Ready reports true and before Stop is not served"),
			Quick: 1, Thor: 2,
		})
	}

	// ---------------------------------------------------------------- C11: Stop after a StartTLS handshake failed
	for _, end := range []string{"stay", "close"} {
		regSpec(&Spec{
			Name: "stop-after-failed-starttls-handshake-client-" + end, Props: []string{"C11", "C12", "C08"},
			Conns:       []ConnSpec{{Ops: []string{"starttls-badhello"}, Read: "none", End: end}},
			ClientsIdle: true, Quick: 2, Thor: 3,
		})
	}

	// ---------------------------------------------------------------- C05: back-pressure with a write timeout: the
	// client stalls for longer than the timeout in the middle of a large frame and then reads everything
	regSpec(&Spec{
		Name: "client-stalls-past-write-timeout-then-reads", Props: []string{"C05", "C08"},
		Srv:   SrvOpts{WriteTimeout: secs(5)},
		Conns: []ConnSpec{{Ops: []string{"search"}, H: map[int]*HSpec{1: {Frames: []int{70000, 10}}}, RecvBuf: 1024, IdleAfterSend: 7, Read: "all", ReadFor: 60}},
		Quick: 2, Thor: 3,
	})
	// a frame of more than a megabyte in flight while a second handler answers
	regSpec(&Spec{
		Name: "megabyte-frame-with-second-writer", Props: []string{"C05"},
		Conns: []ConnSpec{{Ops: []string{"search", "bind"}, H: map[int]*HSpec{1: {Frames: []int{1100000}}}, Expect: 3}},
		Quick: 1, Thor: 2, MaxPts: 200000,
	})

	// ---------------------------------------------------------------- C15 / C03: two requests served by the default
	// route at the same time, with 3, 5, 6 and 7 routes registered in front of it
	for _, routes := range [][]string{
		{"bind", "search", "modify"},
		{"bind", "search", "modify", "add", "extended"},
		{"bind", "search", "modify", "add", "extended", "starttls"},
	} {
		regSpec(&Spec{
			Name: fmt.Sprintf("default-route-serves-two-requests-%d-routes", len(routes)), Props: []string{"C15", "C03", "C06"},
			Srv:   SrvOpts{OnlyRoutes: append(append([]string{}, routes...), "default", "unbind")},
			Conns: []ConnSpec{{Ops: []string{"delete", "delete"}, Expect: 2}},
			Quick: 2, Thor: 3,
		})
	}

	// ---------------------------------------------------------------- C03: a request that reuses the message ID of
	// a request still in progress is a request (both handlers wait until both have started)
	for _, op := range []string{"search", "bind", "delete"} {
		regSpec(&Spec{
			Name: "message-id-reused-while-in-progress-" + op, Props: []string{"C03", "C06"},
			Conns: []ConnSpec{{Ops: []string{op, op + "@dup", "bind"}, Segs: []int{1, 1, 1}, H: map[int]*HSpec{1: {WaitStarted: 3}}, Expect: 3}},
			Quick: 2, Thor: 3,
		})
	}
	// ---------------------------------------------------------------- C10: Stop comes after the Unbind was read while
	// an earlier handler is still running
	regSpec(&Spec{
		Name: "stop-after-unbind-with-earlier-handler-in-flight", Props: []string{"C10", "C08", "C12"},
		Conns:    []ConnSpec{{Ops: []string{"search", "unbind"}, Segs: []int{1, 1}, H: map[int]*HSpec{1: {Yields: 4}}, Read: "all"}},
		StopWhen: "note:unbind-started", Quick: 2, Thor: 3,
	})

	// ---------------------------------------------------------------- C13: Stop with connections that have been
	// upgraded by StartTLS: whatever the server still sends them goes through the TLS layer
	regSpec(&Spec{
		Name: "stop-with-upgraded-idle-connection", Props: []string{"C13", "C11"},
		Conns:       []ConnSpec{{Ops: []string{"starttls", "bind"}, Expect: 2, End: "stay"}},
		ClientsIdle: true, Check: startTLSCheck(1), Quick: 2, Thor: 3,
	})
	regSpec(&Spec{
		Name: "stop-races-requests-in-the-tunnel", Props: []string{"C13", "C11"},
		Conns:    []ConnSpec{{Ops: []string{"starttls", "bind", "search"}, Segs: []int{1, 1, 1}, Read: "all"}},
		StopWhen: "note:starttls-ok", Check: startTLSCheck(1), Quick: 2, Thor: 3,
	})

	// a session whose first StartTLS negotiation failed tries again on the same connection, this time properly
	regSpec(&Spec{
		Name: "starttls-again-after-failed-negotiation", Props: []string{"C13"},
		Conns: []ConnSpec{{Ops: []string{"starttls-badhello-alert", "starttls", "bind"}, Expect: 3}},
		Check: func(x *vrt.Sched, w *World) []Finding {
			if x.Deadlock || x.Crash != nil || x.Horizon || w.Notes["c1-alert-read"] == 0 {
				return nil
			}
			if w.Notes["c1-upgraded"] == 0 || len(w.Clients) == 0 || len(w.Clients[0].Frames) < 3 {
				return []Finding{{"C13", "a conforming StartTLS session does not complete", fmt.Sprintf("second StartTLS of a connection whose first negotiation failed; notes %v", w.Notes)}}
			}
			return nil
		},
		Quick: 2, Thor: 3,
	})

	// ---------------------------------------------------------------- C09: a long server lifetime: connections come
	// and go one after the other (one schedule; 300 connections in the quick tier, 2000 in the thorough tier; the scheduler keeps every thread of an execution, so cost grows with the square)
	{
		n := 300
		if ev.Tier() == "thorough" {
			n = 2000
		}
		reg(&Scn{Name: "many-connections-one-after-the-other", Props: []string{"C09", "C08"}, Quick: 0, Thor: 0, MaxPts: 8000000, Body: func() {
			w := NewWorld()
			vrt.PermuteMaps = false
			curSpec = nil
			w.StartServer(SrvOpts{})
			req := reqBytes("bind", 1001)
			for i := 0; i < n; i++ {
				c, err := vnet.DialWait(w.Addr, vnet.DialOpts{Name: fmt.Sprintf("c%d", i+1)})
				if err != nil {
					w.Notes["dial-failed"]++
					continue
				}
				cl := &Cl{Name: fmt.Sprintf("c%d", i+1), C: c, NC: c}
				_ = cl.Send(req)
				cl.ReadFrames(1)
				if len(cl.Frames) == 1 {
					w.Notes["served"]++
				}
				cl.Close()
			}
			w.Stop()
		}, Check: func(x *vrt.Sched, w *World) []Finding {
			if x.Deadlock || x.Crash != nil || x.Horizon {
				return nil
			}
			var fs []Finding
			seen := map[int]bool{}
			for _, d := range w.Dispatch {
				if d.Conn <= 0 {
					fs = append(fs, Finding{"C09", "a ConnectionID is not positive", fmt.Sprintf("connection number %d reports %d", len(seen)+1, d.Conn)})
					break
				}
				if seen[d.Conn] {
					fs = append(fs, Finding{"C09", "two connections share a ConnectionID", fmt.Sprintf("connection number %d reports %d, as an earlier connection did", len(seen)+1, d.Conn)})
					break
				}
				seen[d.Conn] = true
			}
			closed := map[int]int{}
			for _, id := range w.OnClose {
				closed[id]++
			}
			for id := range seen {
				if closed[id] != 1 && w.StopDone > 0 {
					fs = append(fs, Finding{"C08", fmt.Sprintf("OnClose ran %d times for a connection", closed[id]), fmt.Sprintf("conn %d of %d connections made one after the other", id, n)})
					break
				}
			}
			if w.Notes["served"] != n {
				fs = append(fs, Finding{"C09", "a connection of a long sequence of connections is not served", fmt.Sprintf("%d of %d", w.Notes["served"], n)})
			}
			return fs
		}})
	}

	// ---------------------------------------------------------------- C07: descriptor exhaustion at accept time:
	// while the bystander's connection is open, accept fails with EMFILE (the new connection stays in the
	// backlog); the bystander is served on, and the new client is served once a descriptor is free again
	for _, inflight := range []bool{false, true} {
		by := ConnSpec{Ops: []string{"bind", "search"}, Segs: []int{1, 1}, Sync: true, SendNote: "accept-refused", Expect: 2, Name: "bystander"}
		if inflight {
			by.H = map[int]*HSpec{2: {Yields: 2}}
		}
		regSpec(&Spec{
			Name: fmt.Sprintf("accept-fails-for-lack-of-descriptors-inflight%v", inflight), Props: []string{"C07", "C11"},
			Conns: []ConnSpec{by, {Ops: []string{"bind", "search"}, Segs: []int{1, 1}, Expect: 2, Name: "fresh", WaitNote: "bystander-connected"}},
			Extra: func(w *World) {
				vrt.GoNamed("watch", func() {
					vrt.WaitUntil("accepted", func() bool { return vnet.Accepted() > 0 })
					vnet.SetDescriptorLimit(1)
					vrt.Atomic(func() { w.Notes["bystander-connected"]++ })
					vrt.WaitUntil("refused", func() bool { return vnet.RefusedForDescriptors() > 0 })
					vrt.Atomic(func() { w.Notes["accept-refused"]++ })
				})
			},
			Check: servedCheck("C07", "a connection is not served while or after accepts fail for lack of descriptors"), Quick: 2, Thor: 3,
		})
	}

	// ---------------------------------------------------------------- sixth round: handlers that take (virtual) time
	// a handler still at work when the connection's read deadline expires: the connection ends only after it
	regSpec(&Spec{
		Name: "read-timeout-with-handler-at-work", Props: []string{"C08", "C06", "C12"},
		Srv:   SrvOpts{ReadTimeout: secs(5)},
		Conns: []ConnSpec{{Ops: []string{"bind", "search"}, Segs: []int{1, 1}, H: map[int]*HSpec{2: {Sleep: 10}}, Read: "all", ReadFor: 60}},
		Quick: 2, Thor: 3,
	})
	// a handler still at work long after its client has gone (10 and 100 virtual seconds)
	for _, d := range []int{10, 100} {
		regSpec(&Spec{
			Name: fmt.Sprintf("handler-works-%ds-after-client-left", d), Props: []string{"C08", "C12", "C10"},
			Conns: []ConnSpec{{Ops: []string{"search"}, H: map[int]*HSpec{1: {Sleep: d}}, Read: "none", End: "close"}},
			Quick: 2, Thor: 3,
		})
		regSpec(&Spec{
			Name: fmt.Sprintf("handler-works-%ds-after-unbind", d), Props: []string{"C10", "C08", "C12"},
			Conns: []ConnSpec{{Ops: []string{"search", "unbind"}, Segs: []int{1, 1}, H: map[int]*HSpec{1: {Sleep: d}}, Read: "all"}},
			Quick: 2, Thor: 3,
		})
	}
	// ---------------------------------------------------------------- server configurations x core scenarios: every
	// option of NewServer / Run next to a blocked handler, an Unbind pipeline, a fault and a Stop
	for _, cfg := range []struct {
		name string
		o    SrvOpts
	}{
		{"no-panic-recovery", SrvOpts{NoRecovery: true}},
		{"read-timeout", SrvOpts{ReadTimeout: secs(300)}},
		{"write-timeout", SrvOpts{WriteTimeout: secs(300)}},
		{"read-and-write-timeout", SrvOpts{ReadTimeout: secs(300), WriteTimeout: secs(300)}},
		{"debug-logger", SrvOpts{Debug: true}},
		{"no-onclose", SrvOpts{NoOnClose: true}},
	} {
		regSpec(&Spec{
			Name: "cfg-" + cfg.name + "-blocked-handler-then-request", Props: []string{"C06", "C05", "C03"},
			Srv:   cfg.o,
			Conns: []ConnSpec{{Ops: []string{"bind", "search", "modify"}, Segs: []int{1, 1, 1}, H: map[int]*HSpec{2: {WaitStarted: 3, Frames: []int{10}}}, Expect: 4}},
			Quick: 2, Thor: 3,
		})
		regSpec(&Spec{
			Name: "cfg-" + cfg.name + "-unbind-pipeline", Props: []string{"C10", "C08"},
			Srv:   cfg.o,
			Conns: []ConnSpec{{Ops: []string{"search", "unbind", "bind"}, H: map[int]*HSpec{1: {Yields: 2}}, Read: "all"}},
			Quick: 2, Thor: 3,
		})
		regSpec(&Spec{
			Name: "cfg-" + cfg.name + "-stop-while-handler-runs", Props: []string{"C12", "C11", "C08"},
			Srv:      cfg.o,
			Conns:    []ConnSpec{{Ops: []string{"search"}, H: map[int]*HSpec{1: {Yields: 3}}, Read: "all"}, {Ops: []string{"bind"}, Expect: 1, End: "stay"}},
			StopWhen: "note:started-1", Extra: watchStarted(1), Quick: 2, Thor: 3,
		})
		if !cfg.o.NoRecovery {
			regSpec(&Spec{
				Name: "cfg-" + cfg.name + "-panic-next-to-bystander", Props: []string{"C07", "C08"},
				Srv: cfg.o,
				Conns: []ConnSpec{
					{Ops: []string{"bind", "search"}, H: map[int]*HSpec{2: {Panic: "before"}}, Expect: 1, EndNote: "panicked", Name: "faulty"},
					{Ops: []string{"search"}, Expect: 1, Name: "bystander", EndNote: "faulty-done"},
					{Ops: []string{"bind", "search"}, Segs: []int{1, 1}, Expect: 2, Name: "fresh", After: 2},
				},
				Check: bystandersServed, Quick: 2, Thor: 3,
			})
		}
	}

	// ---------------------------------------------------------------- C13: trouble inside the tunnel
	// a malformed message inside the tunnel ends the connection; whatever the server still sends is TLS
	regSpec(&Spec{
		Name: "malformed-message-inside-the-tunnel", Props: []string{"C13", "C07"},
		Conns: []ConnSpec{{Ops: []string{"starttls", "bind", "garbage"}, Segs: []int{1, 1}, Read: "all"}},
		Check: startTLSCheck(1), Quick: 2, Thor: 3,
	})
	// the client closes its side of the TLS session (close_notify) but not the TCP connection, then sends a
	// request in the clear: it is never served and nothing is answered in the clear
	regSpec(&Spec{
		Name: "cleartext-after-client-close-notify", Props: []string{"C13"},
		Conns: []ConnSpec{{Ops: []string{"starttls", "bind", "tls-closewrite", "search"}, Segs: []int{1, 1}, Read: "all", ReadFor: 30}},
		Check: func(x *vrt.Sched, w *World) []Finding {
			var fs []Finding
			for _, f := range startTLSCheck(1)(x, w) {
				if !strings.HasSuffix(f.Key, "(client to server)") { // this client sends in the clear on purpose
					fs = append(fs, f)
				}
			}
			if x.Deadlock || x.Crash != nil || x.Horizon || w.Notes["c1-closewrite"] == 0 {
				return fs
			}
			for _, d := range w.Dispatch {
				if reqOfMsg(d.MsgID) == 4 {
					fs = append(fs, Finding{"C13", "a request that arrives in the clear on an upgraded connection is served", fmt.Sprintf("message %d dispatched to the %s handler after the client's close_notify", d.MsgID, d.Route)})
				}
			}
			return fs
		},
		Quick: 2, Thor: 3,
	})
	// ---------------------------------------------------------------- C09: connections that never send a request
	// (port probes) between connections that do
	regSpec(&Spec{
		Name: "silent-connections-between-clients", Props: []string{"C09", "C08"},
		Srv: SrvOpts{OnCloseYields: 1},
		Conns: []ConnSpec{
			{Ops: []string{"bind", "search"}, Segs: []int{1, 1}, Sync: true, SendNote: "c5-done", Expect: 2},
			{Name: "probe1", WaitNote: "c1-connected"},
			{Ops: []string{"bind"}, Expect: 1, After: 2},
			{Name: "probe2", After: 3},
			{Ops: []string{"bind", "search"}, Expect: 2, After: 4},
		},
		Extra: func(w *World) {
			vrt.GoNamed("watch", func() {
				vrt.WaitUntil("accepted", func() bool { return vnet.Accepted() > 0 })
				vrt.Atomic(func() { w.Notes["c1-connected"]++ })
			})
		},
		Quick: 2, Thor: 3,
	})

	// ---------------------------------------------------------------- C18 / C07: a client stalls in the handshake of a
	// TLS listener for half a minute; a session established before goes on undisturbed all the while
	for _, stall := range []string{"listener-nohello", "listener-halfhello"} {
		regSpec(&Spec{
			Name: "tls-" + stall + "-for-30s-next-to-an-established-session", Props: []string{"C18", "C07"},
			Srv: SrvOpts{TLS: getPKI().ServerCfg},
			Conns: []ConnSpec{
				{TLS: "listener", Ops: []string{"bind", "search"}, Segs: []int{1, 1}, Sync: true, SendNote: "later", Expect: 2, Name: "established"},
				{TLS: stall, End: "stay", EndNote: "established-done", Name: "faulty", WaitNote: "established-connected"},
			},
			Extra: func(w *World) {
				vrt.GoNamed("watch", func() {
					vrt.WaitUntil("accepted", func() bool { return vnet.Accepted() >= 1 })
					vrt.Atomic(func() { w.Notes["established-connected"]++ })
					vrt.WaitUntil("accepted2", func() bool { return vnet.Accepted() >= 2 })
					vrt.Sleep(secs(30))
					vrt.Atomic(func() { w.Notes["later"]++ })
				})
			},
			Check: servedCheck("C18", "a failed or abandoned TLS handshake ends more than its own connection: an established conforming session is no longer served"),
			Quick: 2, Thor: 3,
		})
	}

	// ---------------------------------------------------------------- C03: Stop races the reading of a request (the
	// debug-level logger tells which requests were read)
	for _, when := range []string{"now", "note:started-1"} {
		sp := &Spec{
			Name: "stop-races-the-reading-of-requests-" + strings.TrimPrefix(when, "note:"), Props: []string{"C03", "C11"},
			Srv:      SrvOpts{Debug: true},
			Conns:    []ConnSpec{{Ops: []string{"bind", "search", "modify"}, Segs: []int{1, 1, 1}, Read: "all"}},
			StopWhen: when, Quick: 2, Thor: 3,
		}
		if when != "now" {
			sp.Extra = watchStarted(1)
		}
		regSpec(sp)
	}

	// ---------------------------------------------------------------- C15 / C14 / C04: package-level state reached from
	// several connections at once: result codes without a description, controls decoded by two read loops
	regSpec(&Spec{
		Name: "uncommon-result-codes-on-two-connections", Props: []string{"C15", "C04"},
		Conns: []ConnSpec{
			{Ops: []string{"search"}, H: map[int]*HSpec{1: {WaitStarted: 2, Code: 9}}, Expect: 1},
			{Ops: []string{"bind"}, H: map[int]*HSpec{1: {WaitStarted: 2, Code: 15}}, Expect: 1},
		},
		Quick: 2, Thor: 3,
	})
	for _, op := range []string{"search-paged", "bind-behera"} {
		regSpec(&Spec{
			Name: "requests-with-controls-on-two-connections-" + op, Props: []string{"C15", "C14"},
			Conns: []ConnSpec{{Ops: []string{op}, Expect: 1}, {Ops: []string{op}, Expect: 1}},
			Quick: 2, Thor: 3,
		})
	}

	// ---------------------------------------------------------------- C11: a client that keeps sending one request
	// after the other (each as soon as the previous one is answered) when Stop comes: what is served after Stop
	// was called is bounded by what was in flight
	regSpec(&Spec{
		Name: "stop-with-client-that-keeps-sending", Props: []string{"C11", "C12"},
		Conns:    []ConnSpec{{Ops: []string{"bind", "search", "bind", "search", "bind", "search", "bind", "search"}, Segs: []int{1, 1, 1, 1, 1, 1, 1, 1}, Sync: true, Read: "all"}},
		StopWhen: "note:started-2", Extra: watchStarted(2),
		Check: func(x *vrt.Sched, w *World) []Finding {
			if x.Deadlock || x.Crash != nil || x.Horizon {
				return nil
			}
			after, seen := 0, false
			for _, l := range x.Log {
				if strings.HasPrefix(l, "stop-called") {
					seen = true
				}
				if seen && strings.HasPrefix(l, "h-enter") {
					after++
				}
			}
			if after > 2 {
				return []Finding{{"C11", "requests keep being served after Stop was called: a client that keeps sending keeps its connection (and Stop) alive", fmt.Sprintf("%d handlers started after Stop was called; log %v", after, x.Log)}}
			}
			return nil
		},
		Quick: 2, Thor: 3,
	})
	// a request without a route on a server without default route, then another request, then Stop
	regSpec(&Spec{
		Name: "stop-after-an-unrouted-request-and-another", Props: []string{"C11", "C03"},
		Srv:         SrvOpts{NoDefaultRoute: true, OnlyRoutes: []string{"bind", "unbind"}},
		Conns:       []ConnSpec{{Ops: []string{"delete", "bind"}, Segs: []int{1, 1}, Expect: 2, End: "stay"}, {Ops: []string{"bind"}, Expect: 1, After: 1, End: "stay"}},
		ClientsIdle: true, Quick: 2, Thor: 3,
	})
	// ---------------------------------------------------------------- C10 over TLS: an earlier handler still at work
	// when the Unbind is read answers its client before the session ends
	for _, kind := range []string{"listener", "starttls"} {
		cs := ConnSpec{Ops: []string{"search", "unbind"}, Segs: []int{1, 1}, H: map[int]*HSpec{1: {Sleep: 10}}, Read: "all"}
		srv := SrvOpts{}
		if kind == "listener" {
			cs.TLS, srv.TLS = "listener", getPKI().ServerCfg
		} else {
			cs.Ops, cs.Segs, cs.H = []string{"starttls", "search", "unbind"}, []int{1, 1}, map[int]*HSpec{2: {Sleep: 10}}
		}
		regSpec(&Spec{
			Name: "handler-works-10s-after-unbind-tls-" + kind, Props: []string{"C10", "C08", "C13"},
			Srv: srv, Conns: []ConnSpec{cs}, Quick: 2, Thor: 3,
		})
	}

	// ---------------------------------------------------------------- C07 / C05: a client is gone (reset) while its
	// handler is still at work; the handler writes late, while a newer connection is being served: nothing of
	// it reaches the newer connection
	regSpec(&Spec{
		Name: "late-write-of-gone-client-vs-newer-connection", Props: []string{"C07", "C05", "C08"}, WriterRaceIs: "C07",
		Conns: []ConnSpec{
			{Ops: []string{"search"}, H: map[int]*HSpec{1: {WaitNote: "fresh-answered", Frames: []int{10}}}, Read: "none", End: "reset", EndNote: "started-1", Name: "faulty"},
			{Ops: []string{"bind", "search"}, Segs: []int{1, 1}, AckAt: 1, AckNote: "fresh-answered", Expect: 2, Name: "fresh", WaitNote: "faulty-done", EndNote: "all-finished"},
		},
		Extra: func(w *World) {
			watchStarted(1)(w)
			vrt.GoNamed("watch2", func() {
				vrt.WaitUntil("finished", func() bool { return w.Finished >= 3 })
				vrt.Atomic(func() { w.Notes["all-finished"]++ })
			})
		},
		Quick: 2, Thor: 3,
	})

	// ================================================================ seventh round
	// C17 / C07: clients that vanish before their handler answers, on a process with few descriptors left: each
	// connection gives its descriptor back, so a later client is still accepted and served
	regSpec(&Spec{
		Name: "vanished-clients-then-new-connection-few-descriptors", Props: []string{"C17", "C07", "C08"},
		Conns: []ConnSpec{
			{Ops: []string{"search"}, H: map[int]*HSpec{1: {WaitNote: "gone1-done"}}, Read: "none", End: "reset", EndNote: "started-1", Name: "gone1"},
			{Ops: []string{"search"}, H: map[int]*HSpec{1: {WaitNote: "gone2-done"}}, Read: "none", End: "reset", EndNote: "started-2", Name: "gone2", After: 1},
			{Ops: []string{"bind", "search"}, Segs: []int{1, 1}, Expect: 2, Name: "fresh", After: 2},
		},
		Extra: func(w *World) {
			vnet.SetDescriptorLimit(2)
			watchStarted(1)(w)
			vrt.GoNamed("watch2", func() {
				vrt.WaitUntil("started-2", func() bool { return w.Started >= 2 })
				vrt.Atomic(func() { w.Notes["started-2"]++ })
			})
		},
		Check: servedCheck("C17", "a connection made while the server is ready and not stopped is never served"),
		Quick: 2, Thor: 3,
	})
	// C10: the unbind handler of one connection waits for the unbind handler of another to have started
	regSpec(&Spec{
		Name: "unbind-handlers-of-two-connections-overlap", Props: []string{"C10", "C06"},
		Conns: []ConnSpec{
			{Ops: []string{"bind", "unbind"}, H: map[int]*HSpec{2: {WaitUnbinds: 2}}, Read: "all"},
			{Ops: []string{"unbind"}, Read: "all", WaitNote: "unbind-started"},
		},
		Quick: 2, Thor: 3,
	})
	// C10: after the Unbind the client keeps its side of the connection open (it waits for the server)
	for _, route := range []bool{true, false} {
		regSpec(&Spec{
			Name: fmt.Sprintf("unbind-client-keeps-its-side-open-route%v", route), Props: []string{"C10", "C08", "C11"},
			Srv:         SrvOpts{NoUnbindRoute: !route},
			Conns:       []ConnSpec{{Ops: []string{"bind", "unbind"}, Read: "all", End: "stay"}},
			ClientsIdle: true, Quick: 2, Thor: 3,
		})
	}
	// C15 / C05: a handler hands its ResponseWriter to a goroutine of its own and returns; the client leaves,
	// a newer connection is served, then the goroutine writes
	regSpec(&Spec{
		Name: "late-write-from-a-handlers-goroutine-vs-newer-connection", Props: []string{"C15", "C05", "C07"}, WriterRaceIs: "C07",
		Conns: []ConnSpec{
			{Ops: []string{"search"}, H: map[int]*HSpec{1: {LateWrite: "fresh-answered"}}, Read: "none", EndNote: "started-1", Name: "faulty"},
			{Ops: []string{"bind", "search"}, Segs: []int{1, 1}, AckAt: 1, AckNote: "fresh-answered", Expect: 2, Name: "fresh", WaitNote: "onclose-1", EndNote: "late-write-done"},
		},
		Extra: watchStarted(1), Quick: 2, Thor: 3,
	})
	// C13: the ClientHello arrives in three TCP segments
	for _, y := range []int{0, 1} {
		regSpec(&Spec{
			Name: fmt.Sprintf("starttls-clienthello-in-three-segments-y%d", y), Props: []string{"C13"},
			Conns: []ConnSpec{{Ops: []string{"starttls", "bind"}, H: map[int]*HSpec{1: {YieldsAfter: y}}, Expect: 2, FragmentHello: true}},
			Check: startTLSCheck(1), Quick: 2, Thor: 3,
		})
	}
	// C13: a configuration that still allows TLS 1.1 and a client that offers nothing newer
	regSpec(&Spec{
		Name: "starttls-with-tls11", Props: []string{"C13"},
		Srv:   SrvOpts{LegacyTLS: true},
		Conns: []ConnSpec{{Ops: []string{"starttls", "bind", "search"}, Segs: []int{1, 1}, Expect: 3, LegacyTLS: true}},
		Check: startTLSCheck(1), Quick: 2, Thor: 3,
	})
	// C12: Stop with an established session on a TLS listener: the socket is closed, not only the TLS session
	regSpec(&Spec{
		Name: "stop-with-established-tls-listener-session", Props: []string{"C12", "C08", "C11"},
		Srv:         SrvOpts{TLS: getPKI().ServerCfg},
		Conns:       []ConnSpec{{TLS: "listener", Ops: []string{"bind"}, Expect: 1, End: "stay"}},
		ClientsIdle: true, Quick: 2, Thor: 3,
	})
	regSpec(&Spec{
		Name: "stop-while-tls-listener-client-reads", Props: []string{"C12", "C08", "C11"},
		Srv:      SrvOpts{TLS: getPKI().ServerCfg},
		Conns:    []ConnSpec{{TLS: "listener", Ops: []string{"bind"}, Read: "all", ReadFor: 30}},
		StopWhen: "note:started-1", Extra: watchStarted(1), Quick: 2, Thor: 3,
	})

	// C08 / C12: Stop while a handler of one connection is at work and another client is just connecting (the
	// accept loop asks for the server's write lock while Stop holds its read lock and waits)
	regSpec(&Spec{
		Name: "stop-while-handler-runs-and-a-client-connects", Props: []string{"C08", "C11", "C12"},
		Srv: SrvOpts{OnCloseYields: 1},
		Conns: []ConnSpec{
			{Ops: []string{"search"}, H: map[int]*HSpec{1: {Yields: 3}}, Read: "all"},
			{Ops: []string{"bind"}, Read: "all", WaitNote: "started-1"},
		},
		StopWhen: "note:started-1", Extra: watchStarted(1), Quick: 2, Thor: 3,
	})
	// C07: a request whose control is malformed (controlType is an INTEGER) next to a bystander
	regSpec(&Spec{
		Name: "fault-malformed-control", Props: []string{"C07", "C08"},
		Conns: []ConnSpec{
			{Ops: []string{"bind", "bind-badcontrol"}, Read: "all", Name: "faulty"},
			{Ops: []string{"search"}, Expect: 1, Name: "bystander", EndNote: "faulty-done"},
			{Ops: []string{"bind", "search"}, Segs: []int{1, 1}, Expect: 2, Name: "fresh", After: 2},
		},
		Check: bystandersServed, Quick: 2, Thor: 3,
	})

	// C11: Stop after a client has sent a request with message ID 0 and gone idle
	for _, op := range []string{"bind", "search", "delete"} {
		regSpec(&Spec{
			Name: "stop-after-a-request-with-message-id-0-" + op, Props: []string{"C11", "C12", "C08"},
			Conns:       []ConnSpec{{Ops: []string{op + "@0", "bind"}, Segs: []int{1, 1}, Expect: 1, End: "stay"}},
			ClientsIdle: true, Quick: 2, Thor: 3,
		})
	}
}
