package main

import (
	"fmt"

	vrt "verif/rt"
	"verif/shim/vnet"
)

// regSpec registers a Spec scenario. Deviation bounds are normalised: quick 2, thorough 3, unless the scenario
// asks for 0 (single default schedule) or -1 (all schedules).
func regSpec(sp *Spec) {
	if sp.Quick > 0 && sp.Quick < 3 {
		sp.Quick = 2
	}
	if sp.Thor > 0 {
		sp.Thor = 3
	}
	reg(sp.scn())
}

func registerAll() {
	defer func() {
		for _, f := range moreScenarios {
			f()
		}
	}()
	// ---------------------------------------------------------------- pipelines, concurrent writers (C05, C06, C08, C09)
	// two requests in one segment, both handlers wait until both have started, then write concurrently
	regSpec(&Spec{
		Name: "pipe2-concurrent-writers", Props: []string{"C05", "C06", "C08", "C09", "C12", "C07", "C03", "C04", "C01"},
		Conns: []ConnSpec{{
			Ops:    []string{"bind", "search"},
			H:      map[int]*HSpec{1: {WaitStarted: 2}, 2: {WaitStarted: 2, Frames: []int{10, 5000}}},
			Expect: 4,
		}},
		Quick: 2, Thor: -1,
	})
	// same, the client reads to EOF after an Unbind-less close by the server at Stop
	regSpec(&Spec{
		Name: "pipe2-large-frames-backpressure", Props: []string{"C05", "C11", "C04"},
		Conns: []ConnSpec{{
			Ops:    []string{"search", "search"},
			H:      map[int]*HSpec{1: {WaitStarted: 2, Frames: []int{70000}}, 2: {WaitStarted: 2, Frames: []int{5000}}},
			Expect: 4, RecvBuf: 1024,
		}},
		Quick: 1, Thor: 2,
	})
	regSpec(&Spec{
		Name: "pipe3-mixed-ops", Props: []string{"C05", "C06", "C09", "C03", "C01"},
		Conns: []ConnSpec{{
			Ops:    []string{"modify", "add", "delete"},
			H:      map[int]*HSpec{1: {WaitStarted: 3}, 2: {WaitStarted: 3}, 3: {WaitStarted: 3}},
			Expect: 3,
		}},
		Quick: 1, Thor: 3,
	})
	// blocked-subset variants: handler k waits for handler k+1 to have started
	for mask := 1; mask < 4; mask++ {
		h := map[int]*HSpec{}
		if mask&1 != 0 {
			h[1] = &HSpec{WaitStarted: 2}
		}
		if mask&2 != 0 {
			h[2] = &HSpec{WaitStarted: 3}
		}
		regSpec(&Spec{
			Name: fmt.Sprintf("pipe3-blocked-subset-%d", mask), Props: []string{"C06"},
			Conns: []ConnSpec{{Ops: []string{"search", "whoami", "bind"}, Segs: []int{1, 2}, H: h, Expect: 3}},
			Quick: 1, Thor: 2,
		})
	}
	// a blocked handler on one connection must not delay another connection
	regSpec(&Spec{
		Name: "two-conns-one-blocked", Props: []string{"C06", "C09", "C08", "C07"},
		Conns: []ConnSpec{
			{Ops: []string{"search"}, H: map[int]*HSpec{1: {WaitNote: "c2-done"}}, Expect: 1},
			{Ops: []string{"bind"}, Expect: 1},
		},
		Quick: 1, Thor: 2,
	})
	// long pipeline, all handlers blocked until the last one has started (one schedule + single preemptions)
	{
		n := 140
		ops := make([]string, n)
		h := map[int]*HSpec{}
		for i := range ops {
			ops[i] = []string{"search", "bind", "modify"}[i%3]
			h[i+1] = &HSpec{WaitStarted: n}
		}
		regSpec(&Spec{
			Name: "pipe140-all-blocked", Props: []string{"C06", "C03"},
			Conns: []ConnSpec{{Ops: ops, H: h, Expect: n}},
			Quick: 0, Thor: 0, MaxPts: 2000000,
		})
	}

	// ---------------------------------------------------------------- connection IDs (C09)
	regSpec(&Spec{
		Name: "three-conns-overlap-reconnect", Props: []string{"C09", "C08"},
		Conns: []ConnSpec{
			{Ops: []string{"bind", "search"}, Expect: 2},
			{Ops: []string{"bind"}, Expect: 1},
			{Ops: []string{"bind"}, Expect: 1, After: 1},
		},
		Quick: 1, Thor: 2,
	})
	regSpec(&Spec{
		Name: "accept-burst", Props: []string{"C09"},
		Conns: []ConnSpec{
			{Ops: []string{"bind"}, Expect: 1}, {Ops: []string{"bind"}, Expect: 1},
		},
		Quick: 1, Thor: 2,
	})

	// ---------------------------------------------------------------- endings (C08)
	endings := []struct {
		name string
		c    ConnSpec
	}{
		{"client-close", ConnSpec{Ops: []string{"search"}, Expect: 1}},
		{"client-close-without-reading", ConnSpec{Ops: []string{"search"}, Read: "none"}},
		{"reset", ConnSpec{Ops: []string{"search"}, Read: "none", End: "reset"}},
		{"unbind", ConnSpec{Ops: []string{"search", "unbind"}, Read: "all"}},
		{"malformed", ConnSpec{Ops: []string{"search", "garbage"}, Read: "all"}},
		{"unsupported-op", ConnSpec{Ops: []string{"search", "compare"}, Read: "all"}},
		{"mid-frame", ConnSpec{Ops: []string{"search"}, Expect: 1, End: "half"}},
		{"server-stop", ConnSpec{Ops: []string{"search"}, Expect: 1, End: "stay"}},
	}
	for _, e := range endings {
		for _, inflight := range []string{"none", "gated", "writing"} {
			c := e.c
			c.H = map[int]*HSpec{}
			switch inflight {
			case "gated":
				c.H[1] = &HSpec{Yields: 2}
			case "writing":
				c.H[1] = &HSpec{Frames: []int{70000}}
				if c.Read == "" && c.Expect > 0 {
					c.Expect = 2
				}
			}
			props := []string{"C08"}
			sp := &Spec{Name: "end-" + e.name + "-" + inflight, Props: props, Conns: []ConnSpec{c}, Quick: 1, Thor: 2}
			if e.name == "server-stop" || e.name == "mid-frame" {
				sp.StopWhen = "clients-done"
				sp.ClientsIdle = true
				sp.Props = []string{"C08", "C11"}
			}
			regSpec(sp)
		}
	}
	regSpec(&Spec{
		Name: "end-read-timeout", Props: []string{"C08"},
		Srv:   SrvOpts{ReadTimeout: secs(5)},
		Conns: []ConnSpec{{Ops: []string{"search"}, Expect: 1, IdleFor: 30}},
		Quick: 1, Thor: 2,
	})
	regSpec(&Spec{
		Name: "end-recovered-panic-inline", Props: []string{"C08", "C07"},
		Conns: []ConnSpec{{Ops: []string{"search", "starttls"}, H: map[int]*HSpec{2: {Panic: "before"}}, Read: "all"}},
		Quick: 1, Thor: 2,
	})

	// ---------------------------------------------------------------- Unbind (C10)
	for a := 0; a <= 2; a++ {
		for b := 0; b <= 2; b++ {
			for _, route := range []bool{true, false} {
				for _, gated := range []bool{false, true} {
					if gated && a == 0 {
						continue
					}
					ops := []string{}
					h := map[int]*HSpec{}
					for i := 0; i < a; i++ {
						ops = append(ops, []string{"search", "bind"}[i%2])
						if gated {
							h[i+1] = &HSpec{Yields: 2}
						}
					}
					ops = append(ops, "unbind")
					for i := 0; i < b; i++ {
						ops = append(ops, []string{"search", "modify"}[i%2])
					}
					q := 1
					if a+b <= 2 {
						q = 2
					}
					regSpec(&Spec{
						Name: fmt.Sprintf("unbind-a%d-b%d-route%v-gated%v", a, b, route, gated), Props: []string{"C10"},
						Srv:   SrvOpts{NoUnbindRoute: !route},
						Conns: []ConnSpec{{Ops: ops, H: h, Read: "all"}},
						Quick: q, Thor: 3,
					})
				}
			}
		}
	}
	regSpec(&Spec{
		Name: "unbind-split-segments", Props: []string{"C10"},
		Conns: []ConnSpec{{Ops: []string{"search", "unbind", "search"}, Segs: []int{1, 1, 1}, Read: "all"}},
		Quick: 2, Thor: 3,
	})

	// ---------------------------------------------------------------- faults (C07)
	for _, f := range []struct{ name, op string }{{"bind", "bind"}, {"search", "search"}, {"extended", "whoami"}, {"modify", "modify"}, {"add", "add"}, {"delete", "delete"}, {"default-route", "unknownext"}, {"starttls-inline", "starttls"}, {"unbind-inline", "unbind"}} {
		for _, when := range []string{"before", "after"} {
			if when == "after" && (f.op == "starttls" || f.op == "unbind") {
				continue
			}
			faulty := ConnSpec{Ops: []string{"bind", f.op}, H: map[int]*HSpec{2: {Panic: when}}, Expect: 1, EndNote: "panicked", Name: "faulty"}
			if f.op == "unbind" || f.op == "starttls" {
				faulty.Read, faulty.EndNote = "all", ""
			}
			regSpec(&Spec{
				Name: "panic-" + f.name + "-" + when, Props: []string{"C07", "C08", "C11", "C12"},
				Conns: []ConnSpec{
					faulty,
					{Ops: []string{"search"}, Expect: 1, Name: "bystander", EndNote: "faulty-done"},
					{Ops: []string{"bind", "search"}, Segs: []int{1, 1}, Expect: 2, Name: "fresh", After: 2},
				},
				Check: bystandersServed,
				Quick: 1, Thor: 2,
			})
		}
	}
	for _, f := range []struct {
		name string
		c    ConnSpec
	}{
		{"reset", ConnSpec{Ops: []string{"search"}, H: map[int]*HSpec{1: {Yields: 1, Frames: []int{5000}}}, Read: "none", End: "reset", Name: "faulty"}},
		{"truncated-frame", ConnSpec{Ops: []string{"bind"}, Expect: 1, End: "half", Name: "faulty"}},
		{"malformed-frame", ConnSpec{Ops: []string{"bind", "garbage"}, Read: "all", Name: "faulty"}},
		{"stops-reading", ConnSpec{Ops: []string{"search"}, H: map[int]*HSpec{1: {Frames: []int{70000}}}, Read: "none", End: "reset", RecvBuf: 1024, Name: "faulty"}},
		{"stops-reading-and-holds", ConnSpec{Ops: []string{"search"}, H: map[int]*HSpec{1: {Frames: []int{70000}}}, Read: "none", End: "reset", EndNote: "fresh-done", RecvBuf: 1024, Name: "faulty"}},
		{"write-after-close", ConnSpec{Ops: []string{"search"}, H: map[int]*HSpec{1: {WaitNote: "faulty-done", Frames: []int{10}}}, Read: "none", Name: "faulty"}},
	} {
		bystanderWaits := "faulty-done"
		if f.c.EndNote == "fresh-done" {
			bystanderWaits = "" // the faulty client holds its connection until the others are done
		}
		regSpec(&Spec{
			Name: "fault-" + f.name, Props: []string{"C07", "C08"},
			Conns: []ConnSpec{
				f.c,
				{Ops: []string{"search"}, Expect: 1, Name: "bystander", EndNote: bystanderWaits},
				{Ops: []string{"bind", "search"}, Segs: []int{1, 1}, Expect: 2, Name: "fresh", After: 2},
			},
			Check: bystandersServed,
			Quick: 1, Thor: 2,
		})
	}

	// ---------------------------------------------------------------- Stop (C11, C12)
	regSpec(&Spec{Name: "stop-no-connections", Props: []string{"C11", "C12", "C17"}, StopWhen: "now", Quick: -1, Thor: -1})
	regSpec(&Spec{Name: "stop-second-stop-no-connections", Props: []string{"C11", "C12"}, StopWhen: "now", SecondStop: true, Quick: 2, Thor: -1})
	regSpec(&Spec{Name: "stop-before-run", Props: []string{"C12", "C11"}, StopBeforeRun: true, Quick: -1, Thor: -1})
	regSpec(&Spec{
		Name: "stop-races-accept", Props: []string{"C12", "C11", "C08", "C09"},
		Conns:    []ConnSpec{{Ops: []string{"bind"}, Read: "all"}},
		StopWhen: "now", Quick: 2, Thor: 3,
	})
	// Stop starts the moment the accept loop has a new connection in its hands
	watchAccepted := func(w *World) {
		vrt.GoNamed("watch", func() {
			vrt.WaitUntil("accepted", func() bool { return vnet.Accepted() > 0 })
			vrt.Atomic(func() { w.Notes["accepted"]++ })
		})
	}
	regSpec(&Spec{
		Name: "stop-right-after-accept", Props: []string{"C12", "C11", "C08", "C09"},
		Conns:    []ConnSpec{{Ops: []string{"bind"}, Read: "all"}},
		StopWhen: "note:accepted", Extra: watchAccepted, Quick: 3, Thor: -1,
	})
	regSpec(&Spec{
		Name: "stop-right-after-accept-slow-onclose", Props: []string{"C12", "C08"},
		Srv:      SrvOpts{OnCloseYields: 1},
		Conns:    []ConnSpec{{Ops: []string{"search"}, H: map[int]*HSpec{1: {Yields: 1}}, Read: "all"}},
		StopWhen: "note:accepted", Extra: watchAccepted, Quick: 2, Thor: 3,
	})
	regSpec(&Spec{
		Name: "stop-races-accept-second-stop", Props: []string{"C12", "C11"},
		Conns:    []ConnSpec{{Ops: []string{"bind"}, Read: "all"}},
		StopWhen: "now", SecondStop: true, Quick: 1, Thor: 2,
	})
	regSpec(&Spec{
		Name: "stop-slow-handler-and-onclose", Props: []string{"C12", "C08"},
		Srv:      SrvOpts{OnCloseYields: 2},
		Conns:    []ConnSpec{{Ops: []string{"search"}, H: map[int]*HSpec{1: {Yields: 2, YieldsAfter: 2}}, Read: "all"}},
		StopWhen: "note:handler-started", Quick: 2, Thor: 3,
		Extra: func(w *World) {
			vrt.GoNamed("watch", func() {
				vrt.WaitUntil("handler-started", func() bool { return w.Started > 0 })
				vrt.Atomic(func() { w.Notes["handler-started"]++ })
			})
		},
	})
	regSpec(&Spec{
		Name: "stop-second-stop-while-handler-runs", Props: []string{"C12", "C15"},
		Conns:    []ConnSpec{{Ops: []string{"search"}, H: map[int]*HSpec{1: {Yields: 3}}, Read: "all"}},
		StopWhen: "note:handler-started", SecondStop: true, Quick: 2, Thor: 3,
		Extra: func(w *World) {
			vrt.GoNamed("watch", func() {
				vrt.WaitUntil("handler-started", func() bool { return w.Started > 0 })
				vrt.Atomic(func() { w.Notes["handler-started"]++ })
			})
		},
	})
	for _, st := range []struct {
		name string
		c    ConnSpec
		srv  SrvOpts
	}{
		{"idle", ConnSpec{Ops: []string{"bind"}, Expect: 1, End: "stay"}, SrvOpts{}},
		{"idle-no-request", ConnSpec{End: "stay"}, SrvOpts{}},
		{"half-frame", ConnSpec{End: "half"}, SrvOpts{}},
		{"tls-handshake-pending", ConnSpec{TLS: "listener-nohello", End: "stay"}, SrvOpts{TLS: getPKI().ServerCfg}},
		{"not-reading", ConnSpec{Ops: []string{"search"}, H: map[int]*HSpec{1: {Frames: []int{70000}}}, Read: "none", End: "stay", RecvBuf: 1024}, SrvOpts{}},
	} {
		regSpec(&Spec{
			Name: "stop-with-" + st.name + "-client", Props: []string{"C11"}, Srv: st.srv,
			Conns: []ConnSpec{st.c}, ClientsIdle: true, Quick: 1, Thor: 2,
		})
	}
	regSpec(&Spec{
		Name: "stop-while-pipelining", Props: []string{"C11", "C12", "C05", "C15"},
		Conns:    []ConnSpec{{Ops: []string{"search", "search", "search"}, Segs: []int{1, 1, 1}, H: map[int]*HSpec{1: {Frames: []int{5000}}, 2: {Frames: []int{10}}}, Read: "all"}},
		StopWhen: "now", Quick: 1, Thor: 2,
	})
	regSpec(&Spec{
		Name: "stop-after-handler-panic", Props: []string{"C11", "C07"},
		Conns: []ConnSpec{{Ops: []string{"search", "bind"}, Segs: []int{1, 1}, H: map[int]*HSpec{1: {Panic: "before"}}, Expect: 1}},
		Quick: 1, Thor: 2,
	})
}

// bystandersServed: the bystander and the fresh connection get all their answers.
func bystandersServed(x *vrt.Sched, w *World) []Finding {
	var fs []Finding
	for _, c := range w.Clients {
		if c.Name == "faulty" {
			continue
		}
		if c.DialErr != nil {
			fs = append(fs, Finding{"C07", "a new connection is refused after a fault on another connection", c.Name})
			continue
		}
		want := 1
		if c.Name == "fresh" {
			want = 2
		}
		if len(c.Frames) != want {
			fs = append(fs, Finding{"C07", "a bystander connection does not receive its responses after a fault on another connection", fmt.Sprintf("%s got %d of %d frames (err %v)", c.Name, len(c.Frames), want, c.ReadErr)})
		}
	}
	return fs
}
