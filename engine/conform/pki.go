package main

import (
	"crypto/ed25519"
	"crypto/rand"
	"crypto/tls"
	"crypto/x509"
	"crypto/x509/pkix"
	"math/big"
	"net"
	"time"
)

var pool *x509.CertPool
var srvCert, cliCert tls.Certificate

func initPKI() {
	pub, priv, _ := ed25519.GenerateKey(rand.Reader)
	ct := &x509.Certificate{SerialNumber: big.NewInt(1), Subject: pkix.Name{CommonName: "ca"}, NotBefore: time.Now().Add(-time.Hour), NotAfter: time.Now().Add(24 * time.Hour), IsCA: true, KeyUsage: x509.KeyUsageCertSign | x509.KeyUsageDigitalSignature, BasicConstraintsValid: true}
	der, _ := x509.CreateCertificate(rand.Reader, ct, ct, pub, priv)
	ca, _ := x509.ParseCertificate(der)
	pool = x509.NewCertPool()
	pool.AddCert(ca)
	leaf := func(server bool) tls.Certificate {
		p, k, _ := ed25519.GenerateKey(rand.Reader)
		t := &x509.Certificate{SerialNumber: big.NewInt(2), Subject: pkix.Name{CommonName: "leaf"}, NotBefore: time.Now().Add(-time.Hour), NotAfter: time.Now().Add(24 * time.Hour), KeyUsage: x509.KeyUsageDigitalSignature}
		if server {
			t.ExtKeyUsage = []x509.ExtKeyUsage{x509.ExtKeyUsageServerAuth}
			t.DNSNames = []string{"localhost"}
			t.IPAddresses = []net.IP{net.IPv4(127, 0, 0, 1)}
		} else {
			t.ExtKeyUsage = []x509.ExtKeyUsage{x509.ExtKeyUsageClientAuth}
		}
		d, _ := x509.CreateCertificate(rand.Reader, t, ca, p, priv)
		return tls.Certificate{Certificate: [][]byte{d}, PrivateKey: k}
	}
	srvCert, cliCert = leaf(true), leaf(false)
}

func serverTLS(mtls bool) *tls.Config {
	c := &tls.Config{Certificates: []tls.Certificate{srvCert}}
	if mtls {
		c.ClientAuth = tls.RequireAndVerifyClientCert
		c.ClientCAs = pool
	}
	return c
}

func clientTLS(cert, _ bool) *tls.Config {
	c := &tls.Config{RootCAs: pool, ServerName: "localhost"}
	if cert {
		c.Certificates = []tls.Certificate{cliCert}
	}
	return c
}
