// conform: the shim conformance suite. Every micro-history is executed twice — on the modelled sockets /
// contexts / sync primitives under the scheduler, and on the real net / context / sync on loopback — and the
// observable results (error class, who sees EOF, byte counts) must be equal. It binds the environment model of
// the SCHED engine to the real thing.
package main

import (
	"context"
	"crypto/tls"
	"encoding/json"
	"errors"
	"fmt"
	"io"
	"net"
	"os"
	"strings"
	"sync"
	"time"

	vrt "verif/rt"
	"verif/shim/vctx"
	"verif/shim/vnet"
	"verif/shim/vsync"
	"verif/shim/vtime"
)

// env abstracts what a history needs.
type env interface {
	Listen(addr string) (net.Listener, error)
	Dial(addr string) (net.Conn, error)
	Go(f func())
	Wait()            // wait for all Go'd functions
	Addr() string     // a free address
	Reset(c net.Conn) // abort the connection (RST)
	Sleep(d time.Duration)
	Real() bool
}

// ---- real ----
type realEnv struct{ wg sync.WaitGroup }

func (e *realEnv) Listen(a string) (net.Listener, error) { return net.Listen("tcp", a) }
func (e *realEnv) Dial(a string) (net.Conn, error)       { return net.DialTimeout("tcp", a, 2*time.Second) }
func (e *realEnv) Go(f func())                           { e.wg.Add(1); go func() { defer e.wg.Done(); f() }() }
func (e *realEnv) Wait()                                 { e.wg.Wait() }
func (e *realEnv) Addr() string {
	l, _ := net.Listen("tcp", "127.0.0.1:0")
	defer l.Close()
	return l.Addr().String()
}
func (e *realEnv) Reset(c net.Conn) {
	if tc, ok := c.(*net.TCPConn); ok {
		tc.SetLinger(0)
	}
	c.Close()
}
func (e *realEnv) Sleep(d time.Duration) { time.Sleep(d) }
func (e *realEnv) Real() bool            { return true }

// ---- model ----
type modelEnv struct{ n, done int }

func (e *modelEnv) Listen(a string) (net.Listener, error) { return vnet.Listen("tcp", a) }
func (e *modelEnv) Dial(a string) (net.Conn, error) {
	c, err := vnet.Dial(a, vnet.DialOpts{})
	if err != nil {
		return nil, err
	}
	return c, nil
}
func (e *modelEnv) Go(f func()) {
	e.n++
	vrt.Go(func() { defer func() { e.done++ }(); f() })
}
func (e *modelEnv) Wait()        { vrt.WaitUntil("conform-wait", func() bool { return e.done == e.n }) }
func (e *modelEnv) Addr() string { return "127.0.0.1:3999" }
func (e *modelEnv) Reset(c net.Conn) {
	if cl, ok := c.(*vnet.Client); ok {
		cl.Reset()
	}
}
func (e *modelEnv) Sleep(d time.Duration) { vrt.Sleep(d) }
func (e *modelEnv) Real() bool            { return false }

// errClass maps an error to what gldap can observe of it.
func errClass(err error) string {
	if err == nil {
		return "nil"
	}
	var ne net.Error
	switch {
	case errors.Is(err, io.EOF):
		return "EOF"
	case errors.Is(err, io.ErrUnexpectedEOF):
		return "unexpected-EOF"
	case errors.Is(err, net.ErrClosed) || strings.Contains(err.Error(), "use of closed network connection"):
		return "closed"
	case errors.Is(err, os.ErrDeadlineExceeded) || (errors.As(err, &ne) && ne.Timeout()):
		return "timeout"
	case strings.Contains(err.Error(), "connection reset") || strings.Contains(err.Error(), "broken pipe"):
		return "reset-or-broken-pipe"
	case strings.Contains(err.Error(), "address already in use"):
		return "addr-in-use"
	case strings.Contains(err.Error(), "connection refused"):
		return "refused"
	case errors.Is(err, context.Canceled):
		return "canceled"
	case errors.Is(err, context.DeadlineExceeded):
		return "deadline-exceeded"
	}
	return "other:" + err.Error()
}

type history struct {
	name string
	run  func(e env) string
}

func readAll(c net.Conn) (int, string) {
	n := 0
	buf := make([]byte, 4096)
	for {
		k, err := c.Read(buf)
		n += k
		if err != nil {
			return n, errClass(err)
		}
	}
}

var histories = []history{
	{"listen-twice", func(e env) string {
		a := e.Addr()
		l, err := e.Listen(a)
		if err != nil {
			return "first:" + errClass(err)
		}
		defer l.Close()
		_, err2 := e.Listen(a)
		return errClass(err2)
	}},
	{"accept-after-close", func(e env) string {
		l, _ := e.Listen(e.Addr())
		l.Close()
		_, err := l.Accept()
		return errClass(err)
	}},
	{"listener-double-close", func(e env) string {
		l, _ := e.Listen(e.Addr())
		a := errClass(l.Close())
		return a + "," + errClass(l.Close())
	}},
	{"close-unblocks-accept", func(e env) string {
		l, _ := e.Listen(e.Addr())
		res := ""
		e.Go(func() { _, err := l.Accept(); res = errClass(err) })
		e.Sleep(20 * time.Millisecond)
		l.Close()
		e.Wait()
		return res
	}},
	{"dial-refused", func(e env) string {
		_, err := e.Dial(e.Addr())
		return errClass(err)
	}},
	{"dial-after-listener-closed", func(e env) string {
		a := e.Addr()
		l, _ := e.Listen(a)
		l.Close()
		_, err := e.Dial(a)
		return errClass(err)
	}},
	{"port-reusable-after-close", func(e env) string {
		a := e.Addr()
		l, _ := e.Listen(a)
		l.Close()
		l2, err := e.Listen(a)
		if err == nil {
			l2.Close()
		}
		return errClass(err)
	}},
	{"data-then-fin", func(e env) string {
		a := e.Addr()
		l, _ := e.Listen(a)
		defer l.Close()
		res := ""
		e.Go(func() {
			s, err := l.Accept()
			if err != nil {
				res = errClass(err)
				return
			}
			n, cls := readAll(s)
			res = fmt.Sprintf("%d,%s", n, cls)
			s.Close()
		})
		c, _ := e.Dial(a)
		c.Write([]byte("hello"))
		c.Close()
		e.Wait()
		return res
	}},
	{"read-after-local-close", func(e env) string {
		a := e.Addr()
		l, _ := e.Listen(a)
		defer l.Close()
		e.Go(func() {
			s, _ := l.Accept()
			if s != nil {
				defer s.Close()
				readAll(s)
			}
		})
		c, _ := e.Dial(a)
		c.Close()
		_, err := c.Read(make([]byte, 1))
		_, werr := c.Write([]byte("x"))
		e.Wait()
		return errClass(err) + "," + errClass(werr) + "," + errClass(c.Close())
	}},
	{"close-unblocks-own-read", func(e env) string {
		a := e.Addr()
		l, _ := e.Listen(a)
		defer l.Close()
		res := ""
		var srv net.Conn
		got := false
		e.Go(func() {
			s, _ := l.Accept()
			srv = s
			got = true
			_, err := s.Read(make([]byte, 1))
			res = errClass(err)
		})
		c, _ := e.Dial(a)
		for !got {
			e.Sleep(time.Millisecond)
		}
		e.Sleep(20 * time.Millisecond)
		srv.Close()
		e.Wait()
		c.Close()
		return res
	}},
	{"deadline-in-the-past", func(e env) string {
		a := e.Addr()
		l, _ := e.Listen(a)
		defer l.Close()
		res := ""
		e.Go(func() {
			s, _ := l.Accept()
			defer s.Close()
			s.SetReadDeadline(time.Unix(1, 0))
			_, err := s.Read(make([]byte, 1))
			res = errClass(err)
			// data that is already there does not help once the deadline has passed
			e.Sleep(30 * time.Millisecond)
			_, err = s.Read(make([]byte, 1))
			res += "," + errClass(err)
			// clearing the deadline makes the data readable again
			s.SetReadDeadline(time.Time{})
			n, err := s.Read(make([]byte, 8))
			res += fmt.Sprintf(",%d,%s", n, errClass(err))
		})
		c, _ := e.Dial(a)
		c.Write([]byte("abc"))
		e.Wait()
		c.Close()
		return res
	}},
	{"deadline-expires-while-blocked", func(e env) string {
		a := e.Addr()
		l, _ := e.Listen(a)
		defer l.Close()
		res := ""
		e.Go(func() {
			s, _ := l.Accept()
			defer s.Close()
			s.SetReadDeadline(now(e).Add(50 * time.Millisecond))
			_, err := s.Read(make([]byte, 1))
			res = errClass(err)
		})
		c, _ := e.Dial(a)
		e.Wait()
		c.Close()
		return res
	}},
	{"deadline-set-by-other-goroutine-wakes-reader", func(e env) string {
		a := e.Addr()
		l, _ := e.Listen(a)
		defer l.Close()
		res := ""
		var srv net.Conn
		got := false
		e.Go(func() {
			s, _ := l.Accept()
			srv, got = s, true
			_, err := s.Read(make([]byte, 1))
			res = errClass(err)
			s.Close()
		})
		c, _ := e.Dial(a)
		for !got {
			e.Sleep(time.Millisecond)
		}
		e.Sleep(20 * time.Millisecond)
		srv.SetReadDeadline(now(e))
		e.Wait()
		c.Close()
		return res
	}},
	{"write-deadline-with-full-window", func(e env) string {
		if e.Real() {
			return "timeout" // a real socket needs megabytes to fill the window: covered by the model only, against the documented semantics
		}
		a := e.Addr()
		l, _ := e.Listen(a)
		defer l.Close()
		res := ""
		e.Go(func() {
			s, _ := l.Accept()
			defer s.Close()
			s.SetWriteDeadline(now(e).Add(50 * time.Millisecond))
			_, err := s.Write(make([]byte, 5000))
			res = errClass(err)
		})
		c, _ := vnet.Dial(a, vnet.DialOpts{RecvBuf: 1024})
		e.Wait()
		c.Close()
		return res
	}},
	{"rst-seen-by-reader", func(e env) string {
		a := e.Addr()
		l, _ := e.Listen(a)
		defer l.Close()
		res := ""
		e.Go(func() {
			s, _ := l.Accept()
			defer s.Close()
			_, cls := readAll(s)
			res = cls
		})
		c, _ := e.Dial(a)
		e.Sleep(20 * time.Millisecond)
		e.Reset(c)
		e.Wait()
		return res
	}},
	{"write-to-closed-peer-eventually-fails", func(e env) string {
		a := e.Addr()
		l, _ := e.Listen(a)
		defer l.Close()
		res := ""
		closed := false
		e.Go(func() {
			s, _ := l.Accept()
			defer s.Close()
			for !closed {
				e.Sleep(time.Millisecond)
			}
			e.Sleep(20 * time.Millisecond)
			// the first write after the peer closed may still succeed on a real socket; within a few writes it fails
			for i := 0; i < 5; i++ {
				if _, err := s.Write([]byte("x")); err != nil {
					res = "fails"
					return
				}
				e.Sleep(20 * time.Millisecond)
			}
			res = "never fails"
		})
		c, _ := e.Dial(a)
		e.Reset(c)
		closed = true
		e.Wait()
		return res
	}},
	{"tls-handshake-and-echo", func(e env) string {
		return tlsHistory(e, serverTLS(false), clientTLS(false, false), "hello")
	}},
	{"tls-mtls-right-cert", func(e env) string {
		return tlsHistory(e, serverTLS(true), clientTLS(true, false), "hello")
	}},
	{"tls-mtls-no-cert", func(e env) string {
		return tlsHistory(e, serverTLS(true), clientTLS(false, false), "hello")
	}},
	{"tls-plaintext-to-tls-listener", func(e env) string {
		a := e.Addr()
		l, _ := e.Listen(a)
		tl := tls.NewListener(l, serverTLS(false))
		defer tl.Close()
		res := ""
		e.Go(func() {
			s, err := tl.Accept()
			if err != nil {
				res = "accept:" + errClass(err)
				return
			}
			defer s.Close()
			_, err = s.Read(make([]byte, 16))
			if err == nil {
				res = "server read plaintext"
			} else {
				res = "server read fails"
			}
		})
		c, _ := e.Dial(a)
		c.Write([]byte{0x30, 0x0c, 0x02, 0x01, 0x01, 0x60, 0x07, 0x02, 0x01, 0x03, 0x04, 0x00, 0x80, 0x00})
		_, cls := readAll(c)
		c.Close()
		e.Wait()
		_ = cls
		return res
	}},
	{"ctx-cancel", func(e env) string {
		var ctx context.Context
		var cancel context.CancelFunc
		if e.Real() {
			ctx, cancel = context.WithCancel(context.Background())
		} else {
			ctx, cancel = vctx.WithCancel(context.Background())
		}
		before := errClass(ctx.Err())
		sel := "open"
		select {
		case <-ctx.Done():
			sel = "closed"
		default:
		}
		cancel()
		cancel()
		after := errClass(ctx.Err())
		sel2 := "open"
		select {
		case <-ctx.Done():
			sel2 = "closed"
		default:
		}
		return before + "," + sel + "," + after + "," + sel2
	}},
	{"select-picks-the-ready-case", func(e env) string {
		a, b := make(chan int, 1), make(chan int, 1)
		a <- 7
		if e.Real() {
			select {
			case v := <-a:
				return fmt.Sprint("a ", v)
			case v := <-b:
				return fmt.Sprint("b ", v)
			}
		}
		switch vrt.Select(false, vrt.RecvCase(a), vrt.RecvCase(b)) {
		case 0:
			return fmt.Sprint("a ", vrt.Recv(a))
		default:
			return fmt.Sprint("b ", vrt.Recv(b))
		}
	}},
	{"select-closed-channel-is-ready", func(e env) string {
		var ctx context.Context
		var cancel context.CancelFunc
		if e.Real() {
			ctx, cancel = context.WithCancel(context.Background())
		} else {
			ctx, cancel = vctx.WithCancel(context.Background())
		}
		cancel()
		never := make(chan int)
		if e.Real() {
			select {
			case _, ok := <-ctx.Done():
				return fmt.Sprint("done ", ok)
			case v := <-never:
				return fmt.Sprint("never ", v)
			}
		}
		d := ctx.Done()
		switch vrt.Select(false, vrt.RecvCase(d), vrt.RecvCase(never)) {
		case 0:
			_, ok := vrt.Recv2(d)
			return fmt.Sprint("done ", ok)
		default:
			return fmt.Sprint("never ", vrt.Recv(never))
		}
	}},
	{"select-blocks-until-a-sender-arrives", func(e env) string {
		ch, never := make(chan int), make(chan int)
		res := ""
		e.Go(func() {
			e.Sleep(30 * time.Millisecond)
			if e.Real() {
				ch <- 5
			} else {
				vrt.Send(ch, 5)
			}
		})
		if e.Real() {
			select {
			case v := <-ch:
				res = fmt.Sprint("ch ", v)
			case v := <-never:
				res = fmt.Sprint("never ", v)
			}
		} else {
			switch vrt.Select(false, vrt.RecvCase(ch), vrt.RecvCase(never)) {
			case 0:
				res = fmt.Sprint("ch ", vrt.Recv(ch))
			default:
				res = fmt.Sprint("never ", vrt.Recv(never))
			}
		}
		e.Wait()
		return res
	}},
	{"select-send-case-needs-a-receiver", func(e env) string {
		// no receiver: the timer case wins; with a receiver waiting: the send case proceeds
		out := ""
		for _, withReceiver := range []bool{false, true} {
			ch := make(chan int)
			got := 0
			if withReceiver {
				e.Go(func() {
					if e.Real() {
						got = <-ch
					} else {
						got = vrt.Recv(ch)
					}
				})
			}
			e.Sleep(20 * time.Millisecond) // the receiver, if any, is blocked by now
			if e.Real() {
				select {
				case ch <- 9:
					out += "sent "
				case <-time.After(60 * time.Millisecond):
					out += "timer "
				}
			} else {
				t := vtime.After(60 * time.Millisecond)
				switch vrt.Select(false, vrt.SendCase(ch), vrt.RecvCase(t)) {
				case 0:
					vrt.Send(ch, 9)
					out += "sent "
				default:
					vrt.Recv(t)
					out += "timer "
				}
			}
			if withReceiver {
				e.Wait()
				out += fmt.Sprint(got)
			}
		}
		return out
	}},
	{"ctx-cancel-wakes-a-blocked-receiver", func(e env) string {
		var ctx context.Context
		var cancel context.CancelFunc
		if e.Real() {
			ctx, cancel = context.WithCancel(context.Background())
		} else {
			ctx, cancel = vctx.WithCancel(context.Background())
		}
		e.Go(func() {
			e.Sleep(30 * time.Millisecond)
			cancel()
		})
		ok := true
		if e.Real() {
			_, ok = <-ctx.Done()
		} else {
			_, ok = vrt.Recv2(ctx.Done())
		}
		e.Wait()
		return fmt.Sprint("woken ", ok, " ", errClass(ctx.Err()))
	}},
	{"ctx-timeout", func(e env) string {
		var ctx context.Context
		var cancel context.CancelFunc
		if e.Real() {
			ctx, cancel = context.WithTimeout(context.Background(), 30*time.Millisecond)
		} else {
			ctx, cancel = vctx.WithTimeout(context.Background(), 30*time.Millisecond)
		}
		defer cancel()
		before := errClass(ctx.Err())
		e.Sleep(60 * time.Millisecond)
		return before + "," + errClass(ctx.Err())
	}},
	{"waitgroup-negative-counter-panics", func(e env) string {
		res := "no panic"
		func() {
			defer func() {
				if r := recover(); r != nil {
					res = fmt.Sprint(r)
				}
			}()
			if e.Real() {
				var wg sync.WaitGroup
				wg.Done()
			} else {
				var wg vsync.WaitGroup
				wg.Done()
			}
		}()
		return res
	}},
	{"rwmutex-pending-writer-blocks-new-readers", func(e env) string {
		order := ""
		var mu sync.Mutex
		note := func(s string) { mu.Lock(); order += s; mu.Unlock() }
		type rw interface {
			Lock()
			Unlock()
			RLock()
			RUnlock()
		}
		var m rw
		if e.Real() {
			m = &sync.RWMutex{}
		} else {
			m = &vsync.RWMutex{}
		}
		m.RLock()
		e.Go(func() { m.Lock(); note("W"); m.Unlock() })
		e.Sleep(30 * time.Millisecond)
		e.Go(func() { m.RLock(); note("R"); m.RUnlock() })
		e.Sleep(30 * time.Millisecond)
		m.RUnlock()
		e.Wait()
		return order
	}},
}

func now(e env) time.Time {
	if e.Real() {
		return time.Now()
	}
	return vrt.Now()
}

func tlsHistory(e env, scfg, ccfg *tls.Config, msg string) string {
	a := e.Addr()
	l, _ := e.Listen(a)
	tl := tls.NewListener(l, scfg)
	defer tl.Close()
	res := ""
	e.Go(func() {
		s, err := tl.Accept()
		if err != nil {
			res = "accept:" + errClass(err)
			return
		}
		defer s.Close()
		buf := make([]byte, 64)
		n, err := s.Read(buf)
		if err != nil {
			res = "server-read-fails"
			return
		}
		s.Write(buf[:n])
		res = "echoed"
	})
	c, err := e.Dial(a)
	if err != nil {
		return "dial:" + errClass(err)
	}
	tc := tls.Client(c, ccfg)
	cres := ""
	if err := tc.Handshake(); err != nil {
		cres = "client-handshake-fails"
	} else if _, err := tc.Write([]byte(msg)); err != nil {
		cres = "client-write-fails"
	} else {
		buf := make([]byte, 64)
		n, err := tc.Read(buf)
		if err != nil {
			cres = "client-read-fails"
		} else {
			cres = "client-got:" + string(buf[:n])
		}
	}
	tc.Close()
	e.Wait()
	return res + "/" + cres
}

func main() {
	initPKI()
	type row struct {
		Name, Model, Real string
		OK                bool
	}
	var rows []row
	bad := 0
	for _, h := range histories {
		h := h
		// real
		re := &realEnv{}
		realRes := h.run(re)
		// model: single default schedule under the scheduler
		var modelRes string
		x := vrt.Run(nil, func() {
			vnet.Reset()
			modelRes = h.run(&modelEnv{})
		}, nil)
		if x.Deadlock {
			modelRes = "DEADLOCK " + strings.Join(x.Blocked, " ")
		}
		if x.Crash != nil {
			modelRes = "CRASH " + x.Crash.Value
		}
		ok := realRes == modelRes
		// the real side uses short sleeps to order goroutines; under load an ordering may slip: retry before believing a difference
		for try := 0; !ok && try < 4; try++ {
			time.Sleep(200 * time.Millisecond)
			realRes = h.run(&realEnv{})
			ok = realRes == modelRes
		}
		if !ok {
			bad++
		}
		rows = append(rows, row{h.name, modelRes, realRes, ok})
	}
	out := map[string]interface{}{"histories": len(rows), "disagreements": bad, "rows": rows}
	b, _ := json.MarshalIndent(out, "", " ")
	if p := os.Getenv("VERIF_CONFORM_OUT"); p != "" {
		os.WriteFile(p, b, 0o644)
	}
	for _, r := range rows {
		mark := "ok  "
		if !r.OK {
			mark = "DIFF"
		}
		fmt.Printf("%s %-48s model=%q real=%q\n", mark, r.Name, r.Model, r.Real)
	}
	if bad > 0 {
		fmt.Printf("conform: %d of %d histories disagree between the model and the real thing\n", bad, len(rows))
		os.Exit(2)
	}
	fmt.Printf("conform: %d histories agree\n", len(rows))
}
