package vctx

import (
	"context"
	"time"

	vrt "verif/rt"
)

type Context = context.Context
type CancelFunc = context.CancelFunc

func Background() Context { return context.Background() }

type vc struct {
	context.Context
	o vrt.Obj
}

func (c *vc) Done() <-chan struct{} {
	vrt.Point("ctx.Done", nil)
	c.o.Touch(1)
	if c.Context.Err() != nil {
		c.o.Acquire()
	}
	return c.Context.Done()
}

func WithCancel(parent Context) (Context, CancelFunc) {
	r, cancel := context.WithCancel(parent)
	v := &vc{Context: r}
	return v, func() {
		if !vrt.InTeardown() {
			vrt.Point("ctx.cancel", nil)
			v.o.Touch(2)
			v.o.Release()
		}
		cancel()
	}
}

func WithTimeout(parent Context, d time.Duration) (Context, CancelFunc) {
	r, cancel := context.WithCancel(parent)
	return r, cancel
}
