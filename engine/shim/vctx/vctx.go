// Package vctx: cancellable contexts whose cancellation and observation are scheduling points.
package vctx

import (
	"context"
	"time"

	vrt "verif/rt"
)

type vc struct {
	parent   context.Context
	done     chan struct{}
	err      error
	deadline time.Time
	hasDL    bool
	o        vrt.Obj
}

func (c *vc) Deadline() (time.Time, bool) {
	if c.hasDL {
		return c.deadline, true
	}
	return c.parent.Deadline()
}

func (c *vc) Value(k any) any { return c.parent.Value(k) }

func (c *vc) check() {
	if c.err != nil {
		return
	}
	if e := c.parent.Err(); e != nil {
		c.err = e
		close(c.done)
		vrt.NoteClosed(c.done)
		return
	}
	if c.hasDL && !vrt.Now().Before(c.deadline) {
		c.err = context.DeadlineExceeded
		close(c.done)
		vrt.NoteClosed(c.done)
	}
}

func (c *vc) Done() <-chan struct{} {
	if !vrt.InTeardown() {
		vrt.Point("ctx.Done", nil)
		c.o.Touch(1)
	}
	c.check()
	if c.err != nil {
		c.o.Acquire()
	}
	return c.done
}

func (c *vc) Err() error {
	if !vrt.InTeardown() {
		vrt.Point("ctx.Err", nil)
		c.o.Touch(3)
	}
	c.check()
	if c.err != nil {
		c.o.Acquire()
	}
	return c.err
}

func (c *vc) cancel() {
	if !vrt.InTeardown() {
		vrt.Point("ctx.cancel", nil)
		c.o.Touch(2)
		c.o.Release()
	}
	if c.err == nil {
		c.err = context.Canceled
		close(c.done)
		vrt.NoteClosed(c.done)
	}
}

func WithCancel(parent context.Context) (context.Context, context.CancelFunc) {
	c := &vc{parent: parent, done: make(chan struct{})}
	return c, c.cancel
}

func WithDeadline(parent context.Context, d time.Time) (context.Context, context.CancelFunc) {
	c := &vc{parent: parent, done: make(chan struct{}), deadline: d, hasDL: true}
	return c, c.cancel
}

func WithTimeout(parent context.Context, d time.Duration) (context.Context, context.CancelFunc) {
	return WithDeadline(parent, vrt.Now().Add(d))
}
