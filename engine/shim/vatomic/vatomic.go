// Package vatomic: sync/atomic with scheduling points and acquire+release edges per variable.
package vatomic

import (
	"sync/atomic"
	"unsafe"

	vrt "verif/rt"
)

var objs = map[unsafe.Pointer]*vrt.Obj{}
var gen *vrt.Sched

func obj(p unsafe.Pointer) *vrt.Obj {
	s := vrt.Current()
	if s != gen {
		gen = s
		objs = map[unsafe.Pointer]*vrt.Obj{}
	}
	o := objs[p]
	if o == nil {
		o = &vrt.Obj{}
		objs[p] = o
	}
	return o
}

func op(p unsafe.Pointer, name string) {
	if vrt.Current() == nil || vrt.InTeardown() {
		return
	}
	vrt.Point("atomic."+name, nil)
	o := obj(p)
	o.Touch(7)
	o.RMW()
}

func AddInt32(a *int32, d int32) int32 { op(unsafe.Pointer(a), "Add"); return atomic.AddInt32(a, d) }
func AddInt64(a *int64, d int64) int64 { op(unsafe.Pointer(a), "Add"); return atomic.AddInt64(a, d) }
func AddUint32(a *uint32, d uint32) uint32 {
	op(unsafe.Pointer(a), "Add")
	return atomic.AddUint32(a, d)
}
func AddUint64(a *uint64, d uint64) uint64 {
	op(unsafe.Pointer(a), "Add")
	return atomic.AddUint64(a, d)
}
func LoadInt32(a *int32) int32          { op(unsafe.Pointer(a), "Load"); return atomic.LoadInt32(a) }
func LoadInt64(a *int64) int64          { op(unsafe.Pointer(a), "Load"); return atomic.LoadInt64(a) }
func LoadUint32(a *uint32) uint32       { op(unsafe.Pointer(a), "Load"); return atomic.LoadUint32(a) }
func LoadUint64(a *uint64) uint64       { op(unsafe.Pointer(a), "Load"); return atomic.LoadUint64(a) }
func StoreInt32(a *int32, v int32)      { op(unsafe.Pointer(a), "Store"); atomic.StoreInt32(a, v) }
func StoreInt64(a *int64, v int64)      { op(unsafe.Pointer(a), "Store"); atomic.StoreInt64(a, v) }
func StoreUint32(a *uint32, v uint32)   { op(unsafe.Pointer(a), "Store"); atomic.StoreUint32(a, v) }
func StoreUint64(a *uint64, v uint64)   { op(unsafe.Pointer(a), "Store"); atomic.StoreUint64(a, v) }
func SwapInt32(a *int32, v int32) int32 { op(unsafe.Pointer(a), "Swap"); return atomic.SwapInt32(a, v) }
func SwapInt64(a *int64, v int64) int64 { op(unsafe.Pointer(a), "Swap"); return atomic.SwapInt64(a, v) }
func CompareAndSwapInt32(a *int32, o, n int32) bool {
	op(unsafe.Pointer(a), "CAS")
	return atomic.CompareAndSwapInt32(a, o, n)
}
func CompareAndSwapInt64(a *int64, o, n int64) bool {
	op(unsafe.Pointer(a), "CAS")
	return atomic.CompareAndSwapInt64(a, o, n)
}
func CompareAndSwapUint32(a *uint32, o, n uint32) bool {
	op(unsafe.Pointer(a), "CAS")
	return atomic.CompareAndSwapUint32(a, o, n)
}

type Bool struct{ v atomic.Bool }

func (b *Bool) Load() bool       { op(unsafe.Pointer(b), "Load"); return b.v.Load() }
func (b *Bool) Store(x bool)     { op(unsafe.Pointer(b), "Store"); b.v.Store(x) }
func (b *Bool) Swap(x bool) bool { op(unsafe.Pointer(b), "Swap"); return b.v.Swap(x) }
func (b *Bool) CompareAndSwap(o, n bool) bool {
	op(unsafe.Pointer(b), "CAS")
	return b.v.CompareAndSwap(o, n)
}

type Int32 struct{ v atomic.Int32 }

func (b *Int32) Load() int32        { op(unsafe.Pointer(b), "Load"); return b.v.Load() }
func (b *Int32) Store(x int32)      { op(unsafe.Pointer(b), "Store"); b.v.Store(x) }
func (b *Int32) Add(x int32) int32  { op(unsafe.Pointer(b), "Add"); return b.v.Add(x) }
func (b *Int32) Swap(x int32) int32 { op(unsafe.Pointer(b), "Swap"); return b.v.Swap(x) }
func (b *Int32) CompareAndSwap(o, n int32) bool {
	op(unsafe.Pointer(b), "CAS")
	return b.v.CompareAndSwap(o, n)
}

type Int64 struct{ v atomic.Int64 }

func (b *Int64) Load() int64        { op(unsafe.Pointer(b), "Load"); return b.v.Load() }
func (b *Int64) Store(x int64)      { op(unsafe.Pointer(b), "Store"); b.v.Store(x) }
func (b *Int64) Add(x int64) int64  { op(unsafe.Pointer(b), "Add"); return b.v.Add(x) }
func (b *Int64) Swap(x int64) int64 { op(unsafe.Pointer(b), "Swap"); return b.v.Swap(x) }
func (b *Int64) CompareAndSwap(o, n int64) bool {
	op(unsafe.Pointer(b), "CAS")
	return b.v.CompareAndSwap(o, n)
}

type Uint32 struct{ v atomic.Uint32 }

func (b *Uint32) Load() uint32        { op(unsafe.Pointer(b), "Load"); return b.v.Load() }
func (b *Uint32) Store(x uint32)      { op(unsafe.Pointer(b), "Store"); b.v.Store(x) }
func (b *Uint32) Add(x uint32) uint32 { op(unsafe.Pointer(b), "Add"); return b.v.Add(x) }
func (b *Uint32) CompareAndSwap(o, n uint32) bool {
	op(unsafe.Pointer(b), "CAS")
	return b.v.CompareAndSwap(o, n)
}

type Uint64 struct{ v atomic.Uint64 }

func (b *Uint64) Load() uint64        { op(unsafe.Pointer(b), "Load"); return b.v.Load() }
func (b *Uint64) Store(x uint64)      { op(unsafe.Pointer(b), "Store"); b.v.Store(x) }
func (b *Uint64) Add(x uint64) uint64 { op(unsafe.Pointer(b), "Add"); return b.v.Add(x) }

type Value struct{ v atomic.Value }

func (b *Value) Load() any   { op(unsafe.Pointer(b), "Load"); return b.v.Load() }
func (b *Value) Store(x any) { op(unsafe.Pointer(b), "Store"); b.v.Store(x) }

type Pointer[T any] struct{ v atomic.Pointer[T] }

func (b *Pointer[T]) Load() *T     { op(unsafe.Pointer(b), "Load"); return b.v.Load() }
func (b *Pointer[T]) Store(x *T)   { op(unsafe.Pointer(b), "Store"); b.v.Store(x) }
func (b *Pointer[T]) Swap(x *T) *T { op(unsafe.Pointer(b), "Swap"); return b.v.Swap(x) }
func (b *Pointer[T]) CompareAndSwap(o, n *T) bool {
	op(unsafe.Pointer(b), "CAS")
	return b.v.CompareAndSwap(o, n)
}
