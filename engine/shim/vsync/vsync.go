// Package vsync: sync primitives whose every operation is a scheduling point with happens-before edges.
package vsync

import (
	vrt "verif/rt"
)

type Mutex struct {
	o      vrt.Obj
	locked bool
}

func (m *Mutex) Lock() {
	if vrt.InTeardown() {
		m.locked = true
		return
	}
	vrt.Point("Mutex.Lock", func() bool { return !m.locked })
	m.locked = true
	m.o.Touch(1)
	m.o.Acquire()
}

func (m *Mutex) TryLock() bool {
	if vrt.InTeardown() {
		return false
	}
	vrt.Point("Mutex.TryLock", nil)
	m.o.Touch(3)
	if m.locked {
		return false
	}
	m.locked = true
	m.o.Acquire()
	return true
}

func (m *Mutex) Unlock() {
	if vrt.InTeardown() {
		m.locked = false
		return
	}
	vrt.Point("Mutex.Unlock", nil)
	if !m.locked {
		vrt.Fatal("sync: unlock of unlocked mutex")
	}
	m.locked = false
	m.o.Touch(2)
	m.o.Release()
}

type RWMutex struct {
	o  vrt.Obj
	ro vrt.Obj // readers' release clock
	w  bool
	r  int
	ww int // writers waiting: a pending Lock blocks new readers, as in the real RWMutex
}

func (m *RWMutex) Lock() {
	if vrt.InTeardown() {
		m.w = true
		return
	}
	vrt.Point("RWMutex.Lock.enter", nil)
	m.o.Touch(5)
	if m.w || m.r > 0 {
		m.ww++
		vrt.Point("RWMutex.Lock", func() bool { return !m.w && m.r == 0 })
		m.ww--
	}
	m.w = true
	m.o.Touch(1)
	m.o.Acquire()
	m.ro.Acquire()
}

func (m *RWMutex) Unlock() {
	if vrt.InTeardown() {
		m.w = false
		return
	}
	vrt.Point("RWMutex.Unlock", nil)
	if !m.w {
		vrt.Fatal("sync: Unlock of unlocked RWMutex")
	}
	m.w = false
	m.o.Touch(2)
	m.o.Release()
}

func (m *RWMutex) RLock() {
	if vrt.InTeardown() {
		m.r++
		return
	}
	vrt.Point("RWMutex.RLock", func() bool { return !m.w && m.ww == 0 })
	m.r++
	m.o.Touch(3)
	m.o.Acquire()
}

func (m *RWMutex) RUnlock() {
	if vrt.InTeardown() {
		m.r--
		return
	}
	vrt.Point("RWMutex.RUnlock", nil)
	if m.r <= 0 {
		vrt.Fatal("sync: RUnlock of unlocked RWMutex")
	}
	m.r--
	m.o.Touch(4)
	m.ro.Release()
}

type WaitGroup struct {
	o       vrt.Obj
	n       int
	waiters int
	sema    int // pseudo location for the race model of the real detector
}

var siteWGAdd = vrt.NewSite("sync.(*WaitGroup).Add", "sync.WaitGroup")
var siteWGWait = vrt.NewSite("sync.(*WaitGroup).Wait", "sync.WaitGroup")

func (w *WaitGroup) Add(d int) {
	if vrt.InTeardown() {
		w.n += d
		return
	}
	vrt.Point("WaitGroup.Add", nil)
	w.o.Touch(uint64(10 + d))
	if d < 0 {
		w.o.Release()
	}
	w.n += d
	if w.n < 0 {
		panic("sync: negative WaitGroup counter")
	}
	if d > 0 && w.n == d {
		vrt.Rd(&w.sema, siteWGAdd) // first increment: a read (as the real race detector models it)
	}
}

func (w *WaitGroup) Done() { w.Add(-1) }

func (w *WaitGroup) Wait() {
	if vrt.InTeardown() {
		return
	}
	vrt.Point("WaitGroup.Wait.enter", nil)
	w.o.Touch(20)
	if w.n != 0 {
		if w.waiters == 0 {
			// only the first waiter writes (as in the real WaitGroup: concurrent Waits must not race with each other)
			w.sema++
			vrt.W(&w.sema, siteWGWait)
		}
		w.waiters++
		vrt.Point("WaitGroup.Wait", func() bool { return w.n == 0 })
		w.waiters--
		w.o.Touch(21)
	}
	w.o.Acquire()
}

type Once struct {
	m    Mutex
	done bool
}

func (o *Once) Do(f func()) {
	o.m.Lock()
	defer o.m.Unlock()
	if !o.done {
		defer func() { o.done = true }()
		f()
	}
}

// Pool stands in for sync.Pool: Get and Put are scheduling points; an object handed back is handed out again
// (last in, first out - what the per-P private slot of the real pool does for one goroutine after another),
// and a Put happens before the Get that returns the same object.
type Pool struct {
	New   func() interface{}
	o     vrt.Obj
	items []interface{}
}

func (p *Pool) Get() interface{} {
	if !vrt.InTeardown() {
		vrt.Point("Pool.Get", nil)
		p.o.Touch(1)
		p.o.Acquire()
	}
	if n := len(p.items); n > 0 {
		x := p.items[n-1]
		p.items = p.items[:n-1]
		return x
	}
	if p.New != nil {
		return p.New()
	}
	return nil
}

func (p *Pool) Put(x interface{}) {
	if x == nil {
		return
	}
	if !vrt.InTeardown() {
		vrt.Point("Pool.Put", nil)
		p.o.Touch(2)
		p.o.Release()
	}
	p.items = append(p.items, x)
	if !vrt.InTeardown() {
		// whoever still uses x after handing it back races with the next taker: give the explorer the chance to
		// run that taker right here (element accesses of a pooled slice are not shadowed by the race oracle)
		vrt.Point("Pool.Put.done", nil)
	}
}
