package vsync

import vrt "verif/rt"

type Mutex struct {
	o      vrt.Obj
	locked bool
}

func (m *Mutex) Lock() {
	vrt.Point("Mutex.Lock", func() bool { return !m.locked })
	m.locked = true
	m.o.Touch(1)
	m.o.Acquire()
}
func (m *Mutex) Unlock() {
	if vrt.InTeardown() {
		m.locked = false
		return
	}
	vrt.Point("Mutex.Unlock", nil)
	if !m.locked {
		panic("sync: unlock of unlocked mutex")
	}
	m.locked = false
	m.o.Touch(2)
	m.o.Release()
}

type RWMutex struct {
	o  vrt.Obj
	ro vrt.Obj // readers' release clock
	w  bool
	r  int
}

func (m *RWMutex) Lock() {
	vrt.Point("RW.Lock", func() bool { return !m.w && m.r == 0 })
	m.w = true
	m.o.Touch(1)
	m.o.Acquire()
	m.ro.Acquire()
}
func (m *RWMutex) Unlock() {
	if vrt.InTeardown() {
		m.w = false
		return
	}
	vrt.Point("RW.Unlock", nil)
	m.w = false
	m.o.Touch(2)
	m.o.Release()
}
func (m *RWMutex) RLock() {
	vrt.Point("RW.RLock", func() bool { return !m.w })
	m.r++
	m.o.Touch(3)
	m.o.Acquire()
}
func (m *RWMutex) RUnlock() {
	if vrt.InTeardown() {
		m.r--
		return
	}
	vrt.Point("RW.RUnlock", nil)
	m.r--
	m.o.Touch(4)
	m.ro.Release()
}

type WaitGroup struct {
	o    vrt.Obj
	n    int
	sema int // pseudo location for the race model
}

func (w *WaitGroup) Add(d int) {
	if vrt.InTeardown() {
		w.n += d
		return
	}
	vrt.Point("WG.Add", nil)
	w.o.Touch(uint64(10 + d))
	if d < 0 {
		w.o.Release()
	}
	w.n += d
	if w.n < 0 {
		panic("sync: negative WaitGroup counter")
	}
	if d > 0 && w.n == d {
		vrt.Rd(&w.sema) // first increment: modelled as a read (as the real race detector does)
	}
}
func (w *WaitGroup) Done() { w.Add(-1) }
func (w *WaitGroup) Wait() {
	if vrt.InTeardown() {
		return
	}
	vrt.Point("WG.Wait.enter", nil)
	w.o.Touch(20)
	if w.n != 0 {
		vrt.W(&w.sema) // a Wait that blocks: modelled as a write
		vrt.Point("WG.Wait", func() bool { return w.n == 0 })
		w.o.Touch(21)
	}
	w.o.Acquire()
}
