// Package vtime: the virtual clock. Time advances only when no thread can run.
package vtime

import (
	"runtime"
	"time"

	vrt "verif/rt"
)

func Now() time.Time                  { return vrt.Now() }
func Sleep(d time.Duration)           { vrt.Sleep(d) }
func Since(t time.Time) time.Duration { return vrt.Now().Sub(t) }
func Until(t time.Time) time.Duration { return t.Sub(vrt.Now()) }

// AfterFunc runs f on its own controlled thread once d has passed.
func AfterFunc(d time.Duration, f func()) *Timer {
	t := &Timer{}
	vrt.GoNamed("", func() {
		vrt.Sleep(d)
		if !t.stopped {
			t.fired = true
			f()
		}
	})
	return t
}

// After returns a channel that receives the time once d has passed (a buffered send from a controlled thread).
func After(d time.Duration) <-chan time.Time {
	ch := make(chan time.Time, 1)
	vrt.GoNamed("", func() {
		vrt.Sleep(d)
		ch <- vrt.Now()
	})
	return ch
}

type Timer struct {
	stopped, fired bool
}

func (t *Timer) Stop() bool {
	was := !t.stopped && !t.fired
	t.stopped = true
	return was
}

// ---- the number of processors is an answer of the environment: many (the default) or one; asked any number of
// times, an execution gets one answer

var procsOf *vrt.Sched
var procs int

func processors() int {
	s := vrt.Current()
	if s == nil {
		return runtime.GOMAXPROCS(0)
	}
	if s != procsOf {
		procsOf = s
		procs = []int{8, 1}[vrt.Choose("processors", 2)]
	}
	return procs
}

// GOMAXPROCS stands in for runtime.GOMAXPROCS (queries only; a call that sets the value is passed on).
func GOMAXPROCS(n int) int {
	if n > 0 {
		return runtime.GOMAXPROCS(n)
	}
	return processors()
}

// NumCPU stands in for runtime.NumCPU.
func NumCPU() int { return processors() }
