package vtime

import "time"

type Duration = time.Duration
type Time = time.Time

const (
	Nanosecond  = time.Nanosecond
	Millisecond = time.Millisecond
	Second      = time.Second
)

var base = time.Date(2026, 1, 1, 0, 0, 0, 0, time.UTC)

func Now() time.Time      { return base }
func Sleep(time.Duration) {}
