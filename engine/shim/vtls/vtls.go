package vtls

import (
	"crypto/tls"
)

type Config = tls.Config
type Certificate = tls.Certificate
type Conn = tls.Conn

const RequireAndVerifyClientCert = tls.RequireAndVerifyClientCert

var X509KeyPair = tls.X509KeyPair
var Server = tls.Server
var NewListener = tls.NewListener
