// Package vbufio: bufio readers/writers whose every use is recorded as a write access to the object
// (bufio types are not safe for concurrent use: two unordered uses are a data race).
package vbufio

import (
	"bufio"
	"io"
	"runtime"
	"strings"

	vrt "verif/rt"
)

type Reader struct {
	r   *bufio.Reader
	tag int
}
type Writer struct {
	w   *bufio.Writer
	tag int
}

var siteR = vrt.NewSite("bufio.(*Reader) use", "bufio.Reader")
var siteW = vrt.NewSite("bufio.(*Writer) use", "bufio.Writer")

// UseSite lets the transformer attribute a use to the calling gldap function.
func (b *Reader) touch() { b.tag++; vrt.W(&b.tag, siteR) }
func (b *Writer) touch() { b.tag++; vrt.W(&b.tag, callerSite(siteW, "bufio.Writer")) }

func NewReader(r io.Reader) *Reader            { return &Reader{r: bufio.NewReader(r)} }
func NewReaderSize(r io.Reader, n int) *Reader { return &Reader{r: bufio.NewReaderSize(r, n)} }
func NewWriter(w io.Writer) *Writer            { return &Writer{w: bufio.NewWriter(w)} }
func NewWriterSize(w io.Writer, n int) *Writer { return &Writer{w: bufio.NewWriterSize(w, n)} }

func (b *Reader) Read(p []byte) (int, error)         { b.touch(); return b.r.Read(p) }
func (b *Reader) ReadByte() (byte, error)            { b.touch(); return b.r.ReadByte() }
func (b *Reader) UnreadByte() error                  { b.touch(); return b.r.UnreadByte() }
func (b *Reader) Peek(n int) ([]byte, error)         { b.touch(); return b.r.Peek(n) }
func (b *Reader) Discard(n int) (int, error)         { b.touch(); return b.r.Discard(n) }
func (b *Reader) Buffered() int                      { b.touch(); return b.r.Buffered() }
func (b *Reader) Reset(r io.Reader)                  { b.touch(); b.r.Reset(r) }
func (b *Reader) ReadString(d byte) (string, error)  { b.touch(); return b.r.ReadString(d) }
func (b *Reader) ReadBytes(d byte) ([]byte, error)   { b.touch(); return b.r.ReadBytes(d) }
func (b *Reader) WriteTo(w io.Writer) (int64, error) { b.touch(); return b.r.WriteTo(w) }

func (b *Writer) Write(p []byte) (int, error)         { b.touch(); return b.w.Write(p) }
func (b *Writer) WriteString(s string) (int, error)   { b.touch(); return b.w.WriteString(s) }
func (b *Writer) WriteByte(c byte) error              { b.touch(); return b.w.WriteByte(c) }
func (b *Writer) Flush() error                        { b.touch(); return b.w.Flush() }
func (b *Writer) Buffered() int                       { b.touch(); return b.w.Buffered() }
func (b *Writer) Available() int                      { b.touch(); return b.w.Available() }
func (b *Writer) Size() int                           { return b.w.Size() }
func (b *Writer) Reset(w io.Writer)                   { b.touch(); b.w.Reset(w) }
func (b *Writer) ReadFrom(r io.Reader) (int64, error) { b.touch(); return b.w.ReadFrom(r) }

var siteCache = map[[10]uintptr]uint32{}

// callerSite attributes a use to the innermost calling function that belongs to the code under test.
func callerSite(def uint32, loc string) uint32 {
	var pcs [10]uintptr
	n := runtime.Callers(4, pcs[:])
	if n == 0 {
		return def
	}
	if s, ok := siteCache[pcs]; ok {
		return s
	}
	site := def
	frames := runtime.CallersFrames(pcs[:n])
	for {
		fr, more := frames.Next()
		if strings.Contains(fr.Function, "gldap") {
			fn := fr.Function
			if i := strings.Index(fn, ".func"); i > 0 {
				fn = fn[:i]
			}
			fn = strings.TrimPrefix(fn, "verif/gldapx/")
			fn = strings.TrimPrefix(fn, "verif/")
			site = vrt.NewSite(fn, loc)
			break
		}
		if !more {
			break
		}
	}
	siteCache[pcs] = site
	return site
}
