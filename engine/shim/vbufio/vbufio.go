package vbufio

import (
	"bufio"
	"io"

	vrt "verif/rt"
)

type Reader struct {
	r   *bufio.Reader
	tag int
}
type Writer struct {
	w   *bufio.Writer
	tag int
}

func NewReader(r io.Reader) *Reader { return &Reader{r: bufio.NewReader(r)} }
func NewWriter(w io.Writer) *Writer { return &Writer{w: bufio.NewWriter(w)} }

func (b *Reader) Read(p []byte) (int, error) { vrt.W(&b.tag); return b.r.Read(p) }
func (b *Writer) Write(p []byte) (int, error) { vrt.W(&b.tag); return b.w.Write(p) }
func (b *Writer) Flush() error                { vrt.W(&b.tag); return b.w.Flush() }
