// Package vnet: a model of the TCP sockets gldap uses. Every operation is a scheduling point; every
// operation on one endpoint is an atomic read-modify-write of that endpoint at entry and exit (as the real
// internal/poll.fdMutex is), which gives the same happens-before edges the real race detector sees.
package vnet

import (
	"context"
	"errors"
	"fmt"
	"io"
	"net"
	"os"
	"strconv"
	"strings"
	"syscall"
	"time"

	vrt "verif/rt"
)

// ---- resolver (a table: localhost and IP literals) ----

type resolver struct{}

var DefaultResolver = &resolver{}

func (*resolver) LookupHost(ctx context.Context, host string) ([]string, error) {
	if host == "localhost" {
		return []string{"127.0.0.1", "::1"}, nil
	}
	if ip := net.ParseIP(host); ip != nil {
		return []string{host}, nil
	}
	return nil, &net.DNSError{Err: "no such host", Name: host, IsNotFound: true}
}

// ---- world ----

type world struct {
	ports     map[int]*listener
	everBound map[int]bool
	nextPort  int
	o         vrt.Obj
	open      map[*conn]bool // open server-side endpoints (the descriptor table of the model)
	accepted  int
	fdLimit   int // > 0: accept fails with EMFILE while this many server-side endpoints are open
	emfile    int // accepts refused for lack of descriptors
	closeGen  int // number of server-side endpoints closed so far
}

var w *world

// Reset creates a fresh world; called at the start of every execution.
func Reset() {
	w = &world{ports: map[int]*listener{}, everBound: map[int]bool{}, nextPort: 40000, open: map[*conn]bool{}}
}

func init() { Reset() }

// SetDescriptorLimit: from now on an accept fails with EMFILE while n server-side endpoints are open (0 = no limit).
func SetDescriptorLimit(n int) { w.fdLimit = n }

// RefusedForDescriptors is the number of accepts that failed with EMFILE so far.
func RefusedForDescriptors() int { return w.emfile }

var errClosed = net.ErrClosed // "use of closed network connection"

type timeoutErr struct{}

func (timeoutErr) Error() string   { return "i/o timeout" }
func (timeoutErr) Timeout() bool   { return true }
func (timeoutErr) Temporary() bool { return true }
func (timeoutErr) Is(e error) bool { return e == os.ErrDeadlineExceeded }

func opErr(op string, err error) error {
	return &net.OpError{Op: op, Net: "tcp", Err: err}
}

func portOf(address string) (int, error) {
	i := strings.LastIndexByte(address, ':')
	if i < 0 {
		return 0, fmt.Errorf("address %s: missing port in address", address)
	}
	host := address[:i]
	if host != "" {
		h := strings.Trim(host, "[]")
		if h != "localhost" && net.ParseIP(h) == nil {
			return 0, &net.DNSError{Err: "no such host", Name: h, IsNotFound: true}
		}
	}
	p, err := strconv.Atoi(address[i+1:])
	if err != nil || p < 0 || p > 65535 {
		return 0, fmt.Errorf("address %s: invalid port", address)
	}
	return p, nil
}

// ---- listener ----

type listener struct {
	o       vrt.Obj
	port    int
	backlog []*conn
	closed  bool
	// emfileGen: closeGen+1 at the moment this listener last reported EMFILE (0 = never)
	emfileGen int
}

// ListenConfig stands in for net.ListenConfig: socket options (Control) have no counterpart in the model - in
// particular an SO_REUSEPORT listener still cannot share a port here, which the real-socket part of C17 covers.
type ListenConfig struct {
	Control   func(network, address string, c syscall.RawConn) error
	KeepAlive time.Duration
}

func (lc *ListenConfig) Listen(ctx context.Context, network, address string) (net.Listener, error) {
	return Listen(network, address)
}

// ListenTCP stands in for net.ListenTCP.
func ListenTCP(network string, laddr *net.TCPAddr) (net.Listener, error) {
	if laddr == nil {
		return Listen(network, ":0")
	}
	return Listen(network, laddr.String())
}

func Listen(network, address string) (net.Listener, error) {
	if vrt.InTeardown() {
		return nil, opErr("listen", errClosed)
	}
	vrt.Point("net.Listen", nil)
	w.o.Touch(1)
	port, err := portOf(address)
	if err != nil {
		return nil, opErr("listen", err)
	}
	if port == 0 {
		for w.ports[w.nextPort] != nil {
			w.nextPort++
		}
		port = w.nextPort
		w.nextPort++
	}
	if _, ok := w.ports[port]; ok {
		return nil, opErr("listen", errors.New("bind: address already in use"))
	}
	l := &listener{port: port}
	w.ports[port] = l
	w.everBound[port] = true
	return l, nil
}

func (l *listener) Accept() (net.Conn, error) {
	if vrt.InTeardown() {
		return nil, opErr("accept", errClosed)
	}
	l.o.RMW()
	defer l.o.RMW()
	// descriptor exhaustion is reported once per state: a caller that tries again while no descriptor has been
	// freed in between gets the same answer for ever, so the retry waits here until a server-side endpoint is
	// closed (a loop of identical failures is stuttering; modelling it as a wait keeps executions finite)
	atLimit := func() bool { return w.fdLimit > 0 && len(OpenServerEndpoints()) >= w.fdLimit }
	vrt.Point("Listener.Accept", func() bool {
		return l.closed || len(l.backlog) > 0 && (!atLimit() || l.emfileGen != w.closeGen+1)
	})
	l.o.Touch(1)
	if l.closed {
		return nil, opErr("accept", errClosed)
	}
	if atLimit() {
		// accept(2) fails with EMFILE and the connection stays in the backlog
		l.emfileGen = w.closeGen + 1
		w.emfile++
		vrt.Logf("env: accept fails, too many open files")
		return nil, &net.OpError{Op: "accept", Net: "tcp", Err: os.NewSyscallError("accept4", syscall.EMFILE)}
	}
	c := l.backlog[0]
	l.backlog = l.backlog[1:]
	w.open[c] = true
	w.accepted++
	vrt.Logf("env: accepted %s", c.name)
	return c, nil
}

func (l *listener) Close() error {
	if vrt.InTeardown() {
		l.closed = true
		return nil
	}
	l.o.RMW()
	defer l.o.RMW()
	vrt.Point("Listener.Close", nil)
	l.o.Touch(2)
	if l.closed {
		return opErr("close", errClosed)
	}
	l.closed = true
	delete(w.ports, l.port)
	w.o.Touch(3)
	for _, c := range l.backlog { // never accepted: the kernel resets them
		c.closed = true
		c.peer.reset = true
	}
	l.backlog = nil
	vrt.Logf("env: listener closed")
	return nil
}

func (l *listener) Addr() net.Addr { return &net.TCPAddr{IP: net.IPv4(127, 0, 0, 1), Port: l.port} }

// PortBound reports whether something listens on the port (the bind probe of the harness).
func PortBound(port int) bool { _, ok := w.ports[port]; return ok }

// OpenServerEndpoints lists server-side endpoints that were accepted and not closed.
func OpenServerEndpoints() []string {
	var out []string
	for c := range w.open {
		if !c.closed {
			out = append(out, c.name)
		}
	}
	return out
}

// Accepted is the number of connections handed out by Accept so far.
func Accepted() int { return w.accepted }

// ---- connections ----

type conn struct {
	o       vrt.Obj
	name    string
	server  bool
	rbuf    []byte // bytes in flight towards this endpoint
	peer    *conn
	closed  bool // closed locally
	peerFIN bool // the peer closed: EOF after the buffered data
	wclosed bool // CloseWrite was called on this side
	reset   bool // connection reset by peer
	rdl     time.Time
	wdl     time.Time
	recvCap int // >0: at most this many bytes are buffered towards this endpoint (back-pressure)
	local   net.Addr
	remote  net.Addr
	// Tap, when set on the client endpoint, receives every chunk the server sends (the wiretap).
	Tap func(fromServer bool, b []byte)
}

// DialOpts controls the client endpoint.
type DialOpts struct {
	Name    string
	RecvBuf int // >0: client-side receive buffer limit (the server's writes block when it is full)
}

var errRefused = errors.New("connect: connection refused")

// Dial connects to address; like a real connect it fails at once when nothing listens.
func Dial(address string, o DialOpts) (*Client, error) {
	if vrt.InTeardown() {
		return nil, opErr("dial", errClosed)
	}
	vrt.Point("Dial", nil)
	w.o.Touch(2)
	port, err := portOf(address)
	if err != nil {
		return nil, opErr("dial", err)
	}
	l := w.ports[port]
	if l == nil {
		return nil, opErr("dial", errRefused)
	}
	l.o.Touch(3)
	name := o.Name
	if name == "" {
		name = fmt.Sprintf("c%d", w.accepted+len(l.backlog)+1)
	}
	c := &conn{name: name + ".client", recvCap: o.RecvBuf}
	s := &conn{name: name + ".server", server: true}
	c.peer, s.peer = s, c
	c.local = &net.TCPAddr{IP: net.IPv4(127, 0, 0, 1), Port: 50000 + len(l.backlog)}
	c.remote = &net.TCPAddr{IP: net.IPv4(127, 0, 0, 1), Port: port}
	s.local, s.remote = c.remote, c.local
	l.backlog = append(l.backlog, s)
	return &Client{conn: c}, nil
}

// DialWait blocks until something listens on the port (a client that retries its connect), then dials.
func DialWait(address string, o DialOpts) (*Client, error) {
	port, err := portOf(address)
	if err != nil {
		return nil, err
	}
	// a client that retries its connect: it gets through once something listens, and gives up (refused)
	// once the port has been bound and released again
	vrt.Point("DialWait", func() bool { return w.ports[port] != nil || w.everBound[port] })
	return Dial(address, o)
}

// Pipe returns a connected pair without a listener (conn-level fixture).
func Pipe(name string, clientRecvBuf int) (*Client, net.Conn) {
	c := &conn{name: name + ".client", recvCap: clientRecvBuf}
	s := &conn{name: name + ".server", server: true}
	c.peer, s.peer = s, c
	c.local = &net.TCPAddr{IP: net.IPv4(127, 0, 0, 1), Port: 50000}
	c.remote = &net.TCPAddr{IP: net.IPv4(127, 0, 0, 1), Port: 389}
	s.local, s.remote = c.remote, c.local
	w.open[s] = true
	return &Client{conn: c}, s
}

func (c *conn) expired(dl time.Time) bool { return !dl.IsZero() && !vrt.Now().Before(dl) }

func (c *conn) Read(p []byte) (int, error) {
	if vrt.InTeardown() {
		return 0, opErr("read", errClosed)
	}
	c.o.RMW()
	defer c.o.RMW()
	vrt.PointTimed(c.name+".Read", func() bool {
		return len(c.rbuf) > 0 || c.peerFIN || c.reset || c.closed || c.expired(c.rdl)
	}, func() time.Time { return c.rdl })
	c.o.Touch(1)
	switch {
	case c.closed:
		return 0, opErr("read", errClosed)
	case c.expired(c.rdl):
		return 0, opErr("read", timeoutErr{})
	case len(p) == 0:
		return 0, nil
	case len(c.rbuf) > 0:
		n := copy(p, c.rbuf)
		c.rbuf = c.rbuf[n:]
		c.peer.o.Touch(6) // window update
		return n, nil
	case c.reset:
		return 0, opErr("read", errors.New("read: connection reset by peer"))
	default:
		return 0, io.EOF
	}
}

func (c *conn) Write(p []byte) (int, error) {
	if vrt.InTeardown() {
		return 0, opErr("write", errClosed)
	}
	c.o.RMW()
	defer c.o.RMW()
	written := 0
	for {
		vrt.PointTimed(c.name+".Write", func() bool {
			return c.closed || c.reset || c.peer.closed || c.expired(c.wdl) || c.peer.recvCap == 0 || len(c.peer.rbuf) < c.peer.recvCap
		}, func() time.Time { return c.wdl })
		c.o.Touch(2)
		switch {
		case c.closed:
			return written, opErr("write", errClosed)
		case c.wclosed:
			return written, opErr("write", errors.New("write: broken pipe"))
		case c.expired(c.wdl):
			return written, opErr("write", timeoutErr{})
		case c.reset:
			return written, opErr("write", errors.New("write: connection reset by peer"))
		case c.peer.closed:
			return written, opErr("write", errors.New("write: broken pipe"))
		}
		chunk := p[written:]
		if c.peer.recvCap > 0 {
			if room := c.peer.recvCap - len(c.peer.rbuf); len(chunk) > room {
				chunk = chunk[:room]
			}
		}
		c.peer.rbuf = append(c.peer.rbuf, chunk...)
		c.peer.o.Touch(3)
		if c.server && c.peer.Tap != nil {
			c.peer.Tap(true, chunk)
		} else if !c.server && c.Tap != nil {
			c.Tap(false, chunk)
		}
		written += len(chunk)
		if written == len(p) {
			return written, nil
		}
	}
}

func (c *conn) Close() error {
	if vrt.InTeardown() {
		c.closed = true
		return nil
	}
	c.o.RMW()
	defer c.o.RMW()
	vrt.Point(c.name+".Close", nil)
	c.o.Touch(4)
	if c.closed {
		return opErr("close", errClosed)
	}
	c.closed = true
	c.peer.peerFIN = true
	c.peer.o.Touch(5)
	if c.server {
		w.closeGen++
		w.o.Touch(7)
		vrt.Logf("env: server closed %s", c.name)
	}
	return nil
}

// CloseWrite shuts down the sending side (as *net.TCPConn does): the peer reads EOF after what is buffered,
// this side can still read.
func (c *conn) CloseWrite() error {
	if vrt.InTeardown() {
		return nil
	}
	c.o.RMW()
	defer c.o.RMW()
	vrt.Point(c.name+".CloseWrite", nil)
	c.o.Touch(11)
	if c.closed {
		return opErr("close", errClosed)
	}
	c.wclosed = true
	c.peer.peerFIN = true
	c.peer.o.Touch(5)
	return nil
}

func (c *conn) LocalAddr() net.Addr  { return c.local }
func (c *conn) RemoteAddr() net.Addr { return c.remote }

func (c *conn) SetDeadline(t time.Time) error {
	if vrt.InTeardown() {
		return nil
	}
	c.o.RMW()
	vrt.Point(c.name+".SetDeadline", nil)
	c.o.Touch(7)
	if c.closed {
		return opErr("set", errClosed)
	}
	c.rdl, c.wdl = t, t
	return nil
}

func (c *conn) SetReadDeadline(t time.Time) error {
	if vrt.InTeardown() {
		return nil
	}
	c.o.RMW()
	vrt.Point(c.name+".SetReadDeadline", nil)
	c.o.Touch(8)
	if c.closed {
		return opErr("set", errClosed)
	}
	c.rdl = t
	return nil
}

func (c *conn) SetWriteDeadline(t time.Time) error {
	if vrt.InTeardown() {
		return nil
	}
	c.o.RMW()
	vrt.Point(c.name+".SetWriteDeadline", nil)
	c.o.Touch(9)
	if c.closed {
		return opErr("set", errClosed)
	}
	c.wdl = t
	return nil
}

// ---- client side (harness) ----

// Client is the harness's end of a connection. It implements net.Conn (so crypto/tls can run over it).
type Client struct{ *conn }

// Reset aborts the connection (RST): the server's pending and later reads/writes fail.
func (c *Client) Reset() {
	if vrt.InTeardown() {
		return
	}
	c.o.RMW()
	vrt.Point(c.name+".Reset", nil)
	c.o.Touch(10)
	c.closed = true
	c.peer.reset = true
	c.peer.rbuf = nil
	c.peer.o.Touch(11)
}

// SetTap installs the wiretap (called with every chunk in either direction).
func (c *Client) SetTap(f func(fromServer bool, b []byte)) { c.conn.Tap = f }

// ServerClosed reports whether the server closed its end.
func (c *Client) ServerClosed() bool { return c.peer.closed }

// PendingBytes is what has arrived for the client and has not been read yet.
func (c *Client) PendingBytes() []byte { return append([]byte(nil), c.rbuf...) }

// Pending is the number of bytes the server has sent that the client has not read yet.
func (c *Client) Pending() int { return len(c.rbuf) }

// ServerUnread is the number of bytes the client sent that the server has not read.
func (c *Client) ServerUnread() int { return len(c.peer.rbuf) }

// DefaultAddr is the address the harness servers listen on (a free real port in the real-socket flavour).
func DefaultAddr() string { return "127.0.0.1:3890" }
