package vnet

import (
	"context"
	"errors"
	"fmt"
	"io"
	"net"
	"os"
	"time"

	vrt "verif/rt"
)

type Conn = net.Conn
type Listener = net.Listener
type IP = net.IP
type TCPAddr = net.TCPAddr

var ParseIP = net.ParseIP
var IPv4 = net.IPv4
var ResolveTCPAddr = net.ResolveTCPAddr
var ListenTCP = net.ListenTCP

type resolver struct{}

var DefaultResolver = &resolver{}

func (*resolver) LookupHost(ctx context.Context, host string) ([]string, error) {
	if host == "localhost" {
		return []string{"127.0.0.1"}, nil
	}
	if ip := net.ParseIP(host); ip != nil {
		return []string{host}, nil
	}
	return nil, errors.New("no such host")
}

// world is per-execution state, reset by Reset().
type world struct{ ports map[string]*listener }

var w = &world{ports: map[string]*listener{}}
var portObj = &vrt.Obj{}

func Reset() { w = &world{ports: map[string]*listener{}}; portObj = &vrt.Obj{} }

var errClosed = errors.New("use of closed network connection")

type addr string

func (a addr) Network() string { return "tcp" }
func (a addr) String() string  { return string(a) }

type listener struct {
	o       vrt.Obj
	a       string
	backlog []*conn
	closed  bool
}

func Listen(network, address string) (net.Listener, error) {
	vrt.Point("net.Listen", nil)
	portObj.Touch(1)
	if _, ok := w.ports[address]; ok {
		return nil, fmt.Errorf("listen tcp %s: bind: address already in use", address)
	}
	l := &listener{a: address}
	w.ports[address] = l
	return l, nil
}

func (l *listener) Accept() (net.Conn, error) {
	l.o.Acquire()
	l.o.Release()
	defer func() { l.o.Acquire(); l.o.Release() }()
	vrt.Point("Accept", func() bool { return len(l.backlog) > 0 || l.closed })
	l.o.Touch(1)
	if l.closed {
		return nil, fmt.Errorf("accept tcp %s: %w", l.a, errClosed)
	}
	c := l.backlog[0]
	l.backlog = l.backlog[1:]
	return c, nil
}

func (l *listener) Close() error {
	if !vrt.InTeardown() {
		vrt.Point("Listener.Close", nil)
		l.o.Touch(2)
		l.o.Acquire()
		l.o.Release()
		defer func() { l.o.Acquire(); l.o.Release() }()
	}
	if l.closed {
		return fmt.Errorf("close tcp %s: %w", l.a, errClosed)
	}
	l.closed = true
	delete(w.ports, l.a)
	portObj.Touch(3)
	for _, c := range l.backlog {
		c.peer.peerClosed = true
	}
	return nil
}
func (l *listener) Addr() net.Addr { return addr(l.a) }

func PortBound(address string) bool { _, ok := w.ports[address]; return ok }

type conn struct {
	o          vrt.Obj
	name       string
	rbuf       []byte
	peer       *conn
	closed     bool
	peerClosed bool
	rdl        time.Time
	Wire       *[]byte // bytes received by this end (log)
}

// Dial blocks until the port is bound (models a client retrying connect).
func Dial(address string) (net.Conn, error) {
	vrt.Point("Dial", func() bool { return PortBound(address) })
	portObj.Touch(2)
	l := w.ports[address]
	l.o.Touch(3)
	c := &conn{name: "client"}
	s := &conn{name: "server"}
	c.peer, s.peer = s, c
	l.backlog = append(l.backlog, s)
	return c, nil
}

func (c *conn) Read(p []byte) (int, error) {
	if vrt.InTeardown() {
		return 0, errClosed
	}
	c.o.Acquire()
	c.o.Release()
	defer func() { c.o.Acquire(); c.o.Release() }()
	vrt.Point(c.name+".Read", func() bool { return len(c.rbuf) > 0 || c.peerClosed || c.closed })
	c.o.Touch(1)
	if c.closed {
		return 0, fmt.Errorf("read tcp: %w", errClosed)
	}
	if len(c.rbuf) == 0 {
		return 0, io.EOF
	}
	n := copy(p, c.rbuf)
	c.rbuf = c.rbuf[n:]
	return n, nil
}

func (c *conn) Write(p []byte) (int, error) {
	if vrt.InTeardown() {
		return 0, errClosed
	}
	c.o.Acquire()
	c.o.Release()
	defer func() { c.o.Acquire(); c.o.Release() }()
	vrt.Point(c.name+".Write", nil)
	c.o.Touch(2)
	c.peer.o.Touch(3)
	if c.closed {
		return 0, fmt.Errorf("write tcp: %w", errClosed)
	}
	if c.peer.closed {
		return 0, errors.New("write tcp: broken pipe")
	}
	c.peer.rbuf = append(c.peer.rbuf, p...)
	return len(p), nil
}

func (c *conn) Close() error {
	if !vrt.InTeardown() {
		vrt.Point(c.name+".Close", nil)
		c.o.Touch(4)
		c.peer.o.Touch(5)
		c.o.Acquire()
		c.o.Release()
		defer func() { c.o.Acquire(); c.o.Release() }()
	}
	if c.closed {
		return fmt.Errorf("close tcp: %w", errClosed)
	}
	c.closed = true
	c.peer.peerClosed = true
	return nil
}
func (c *conn) LocalAddr() net.Addr                { return addr("local") }
func (c *conn) RemoteAddr() net.Addr               { return addr("remote") }
func (c *conn) SetDeadline(t time.Time) error      { return nil }
func (c *conn) SetReadDeadline(t time.Time) error  { c.rdl = t; return nil }
func (c *conn) SetWriteDeadline(t time.Time) error { return nil }

var _ = os.ErrDeadlineExceeded
