// Package codec is the trusted base of the ENUM checks: an independent BER
// builder and a strict BER/LDAP parser that share no code with go-asn1-ber.
package codec

import (
	"encoding/hex"
	"errors"
	"fmt"
	"strings"
)

// Classes
const (
	Universal   = 0
	Application = 1
	Context     = 2
	Private     = 3
)

// Universal tags used by LDAP
const (
	TagBoolean    = 1
	TagInteger    = 2
	TagOctet      = 4
	TagNull       = 5
	TagEnumerated = 10
	TagSequence   = 16
	TagSet        = 17
)

// Node is one BER TLV. A constructed node has Kids, a primitive one Content.
// Raw, when set, is emitted verbatim instead (pre-encoded foreign bytes).
// LenOverride, when non-nil, replaces the length octets (corruption mutations).
type Node struct {
	Class       int
	Constructed bool
	Tag         int
	Content     []byte
	Kids        []*Node
	Raw         []byte
	LenOverride []byte
	Inner       *Node // primitive node whose content is the encoding of Inner (OCTET STRING wrapping BER)
}

func encLen(n int) []byte {
	if n < 128 {
		return []byte{byte(n)}
	}
	var b []byte
	for v := n; v > 0; v >>= 8 {
		b = append([]byte{byte(v)}, b...)
	}
	return append([]byte{0x80 | byte(len(b))}, b...)
}

func encIdent(class int, constructed bool, tag int) []byte {
	b := byte(class << 6)
	if constructed {
		b |= 0x20
	}
	if tag < 31 {
		return []byte{b | byte(tag)}
	}
	out := []byte{b | 31}
	var t []byte
	for v := tag; ; v >>= 7 {
		t = append([]byte{byte(v & 0x7f)}, t...)
		if v < 128 {
			break
		}
	}
	for i := 0; i < len(t)-1; i++ {
		t[i] |= 0x80
	}
	return append(out, t...)
}

// Ident is the identifier octets of (class, constructed, tag), in high-tag-number form from tag 31 on.
func Ident(class int, constructed bool, tag int) []byte { return encIdent(class, constructed, tag) }

// Body is the content octets of the node as Bytes would write them.
func (n *Node) Body() []byte {
	if n.Constructed {
		var body []byte
		for _, k := range n.Kids {
			body = append(body, k.Bytes()...)
		}
		return body
	}
	if n.Inner != nil {
		return n.Inner.Bytes()
	}
	return n.Content
}

// Bytes encodes the node (definite, minimal lengths unless overridden).
func (n *Node) Bytes() []byte {
	if n.Raw != nil {
		return n.Raw
	}
	var body []byte
	if n.Constructed {
		for _, k := range n.Kids {
			body = append(body, k.Bytes()...)
		}
	} else if n.Inner != nil {
		body = n.Inner.Bytes()
	} else {
		body = n.Content
	}
	out := encIdent(n.Class, n.Constructed, n.Tag)
	if n.LenOverride != nil {
		out = append(out, n.LenOverride...)
	} else {
		out = append(out, encLen(len(body))...)
	}
	return append(out, body...)
}

// Clone deep-copies a tree.
func (n *Node) Clone() *Node {
	c := *n
	c.Content = append([]byte(nil), n.Content...)
	if n.Raw != nil {
		c.Raw = append([]byte(nil), n.Raw...)
	}
	if n.LenOverride != nil {
		c.LenOverride = append([]byte(nil), n.LenOverride...)
	}
	if n.Inner != nil {
		c.Inner = n.Inner.Clone()
	}
	c.Kids = make([]*Node, len(n.Kids))
	for i, k := range n.Kids {
		c.Kids[i] = k.Clone()
	}
	return &c
}

// ---- constructors ----

func EncInt(v int64) []byte {
	// minimal two's complement
	n := 1
	for x := v; x > 127 || x < -128; x >>= 8 {
		n++
	}
	b := make([]byte, n)
	for i := n - 1; i >= 0; i-- {
		b[i] = byte(v)
		v >>= 8
	}
	return b
}

func Prim(class, tag int, content []byte) *Node {
	return &Node{Class: class, Tag: tag, Content: content}
}
func Cons(class, tag int, kids ...*Node) *Node {
	return &Node{Class: class, Constructed: true, Tag: tag, Kids: kids}
}
func Int(v int64) *Node  { return Prim(Universal, TagInteger, EncInt(v)) }
func Enum(v int64) *Node { return Prim(Universal, TagEnumerated, EncInt(v)) }
func Bool(v bool) *Node {
	if v {
		return Prim(Universal, TagBoolean, []byte{0xff})
	}
	return Prim(Universal, TagBoolean, []byte{0})
}
func Octet(s string) *Node            { return Prim(Universal, TagOctet, []byte(s)) }
func Null() *Node                     { return Prim(Universal, TagNull, nil) }
func Seq(kids ...*Node) *Node         { return Cons(Universal, TagSequence, kids...) }
func Set(kids ...*Node) *Node         { return Cons(Universal, TagSet, kids...) }
func RawNode(b []byte) *Node          { return &Node{Raw: b} }
func Wrap(inner *Node) *Node          { return &Node{Class: Universal, Tag: TagOctet, Inner: inner} }
func CtxPrim(tag int, s string) *Node { return Prim(Context, tag, []byte(s)) }

// ---- strict parser ----

var ErrShort = errors.New("codec: truncated")

// ParseOne parses exactly one TLV from the front of b (definite lengths only,
// every constructed value consumed exactly) and returns the rest.
func ParseOne(b []byte) (*Node, []byte, error) {
	if len(b) < 2 {
		return nil, b, ErrShort
	}
	n := &Node{Class: int(b[0] >> 6), Constructed: b[0]&0x20 != 0, Tag: int(b[0] & 0x1f)}
	i := 1
	if n.Tag == 31 {
		n.Tag = 0
		for {
			if i >= len(b) {
				return nil, b, ErrShort
			}
			n.Tag = n.Tag<<7 | int(b[i]&0x7f)
			i++
			if b[i-1]&0x80 == 0 {
				break
			}
			if n.Tag > 1<<24 {
				return nil, b, errors.New("codec: tag too large")
			}
		}
	}
	if i >= len(b) {
		return nil, b, ErrShort
	}
	l := int(b[i])
	i++
	if l == 0x80 {
		return nil, b, errors.New("codec: indefinite length (forbidden by RFC 4511 5.1)")
	}
	if l == 0xff {
		return nil, b, errors.New("codec: invalid length octet 0xff")
	}
	if l > 0x80 {
		k := l & 0x7f
		if k > 4 {
			return nil, b, errors.New("codec: length too large")
		}
		if i+k > len(b) {
			return nil, b, ErrShort
		}
		l = 0
		for j := 0; j < k; j++ {
			l = l<<8 | int(b[i+j])
		}
		i += k
	}
	if i+l > len(b) {
		return nil, b, ErrShort
	}
	body := b[i : i+l]
	rest := b[i+l:]
	if n.Constructed {
		for len(body) > 0 {
			k, r, err := ParseOne(body)
			if err != nil {
				if err == ErrShort {
					return nil, b, errors.New("codec: child overruns its parent")
				}
				return nil, b, err
			}
			n.Kids = append(n.Kids, k)
			body = r
		}
	} else {
		n.Content = append([]byte(nil), body...)
	}
	return n, rest, nil
}

// Frames splits a byte stream into whole top-level TLVs; leftover is the
// unparsed tail (an incomplete frame), err is set when the stream is malformed.
func Frames(stream []byte) (frames [][]byte, leftover []byte, err error) {
	for len(stream) > 0 {
		_, rest, e := ParseOne(stream)
		if e == ErrShort {
			return frames, stream, nil
		}
		if e != nil {
			return frames, stream, e
		}
		frames = append(frames, stream[:len(stream)-len(rest)])
		stream = rest
	}
	return frames, nil, nil
}

func DecInt(b []byte) (int64, error) {
	if len(b) == 0 || len(b) > 8 {
		return 0, fmt.Errorf("codec: integer of %d bytes", len(b))
	}
	v := int64(int8(b[0]))
	for _, x := range b[1:] {
		v = v<<8 | int64(x)
	}
	return v, nil
}

func (n *Node) Is(class int, constructed bool, tag int) bool {
	return n != nil && n.Class == class && n.Constructed == constructed && n.Tag == tag
}

func (n *Node) String() string {
	var sb strings.Builder
	n.dump(&sb)
	return sb.String()
}

func (n *Node) dump(sb *strings.Builder) {
	c := "UACP"[n.Class]
	if n.Raw != nil {
		fmt.Fprintf(sb, "raw:%s", hex.EncodeToString(n.Raw))
		return
	}
	if n.Constructed {
		fmt.Fprintf(sb, "%c%d{", c, n.Tag)
		for i, k := range n.Kids {
			if i > 0 {
				sb.WriteByte(' ')
			}
			k.dump(sb)
		}
		sb.WriteByte('}')
	} else if n.Inner != nil {
		fmt.Fprintf(sb, "%c%d<", c, n.Tag)
		n.Inner.dump(sb)
		sb.WriteByte('>')
	} else {
		fmt.Fprintf(sb, "%c%d:%s", c, n.Tag, hex.EncodeToString(n.Content))
	}
	if n.LenOverride != nil {
		fmt.Fprintf(sb, "!len=%s", hex.EncodeToString(n.LenOverride))
	}
}
