package codec

import (
	"errors"
	"fmt"
	"strconv"
)

// Application tags
const (
	AppBindRequest     = 0
	AppBindResponse    = 1
	AppUnbindRequest   = 2
	AppSearchRequest   = 3
	AppSearchEntry     = 4
	AppSearchDone      = 5
	AppModifyRequest   = 6
	AppModifyResponse  = 7
	AppAddRequest      = 8
	AppAddResponse     = 9
	AppDelRequest      = 10
	AppDelResponse     = 11
	AppModDNRequest    = 12
	AppCompareRequest  = 14
	AppAbandonRequest  = 16
	AppExtendedRequest = 23
	AppExtendedResp    = 24
)

// Control OIDs (RFCs / drafts; written out here, not imported from gldap)
const (
	OIDPaging      = "1.2.840.113556.1.4.319"
	OIDBehera      = "1.3.6.1.4.1.42.2.27.8.5.1"
	OIDVChuMust    = "2.16.840.1.113730.3.4.4"
	OIDVChuWarn    = "2.16.840.1.113730.3.4.5"
	OIDManageDsaIT = "2.16.840.1.113730.3.4.2"
	OIDMSNotif     = "1.2.840.113556.1.4.528"
	OIDMSShowDel   = "1.2.840.113556.1.4.417"
	OIDMSLinkTTL   = "1.2.840.113556.1.4.2309"
	OIDStartTLS    = "1.3.6.1.4.1.1466.20037"
	OIDWhoAmI      = "1.3.6.1.4.1.4203.1.11.3"
)

// Control is the reference record of a control value.
type Control struct {
	Kind    string // paging behera vchu-must vchu-warn managedsait ms-notif ms-showdel ms-ttl string
	OID     string
	Crit    bool
	Size    uint32
	Cookie  []byte
	Expire  int64 // behera / vchu-warn; -1 unset
	Grace   int64 // behera; -1 unset
	Err     int64 // behera; -1 unset
	Value   string
	NoValue bool // paging/behera/vchu-warn encoded without value
}

func (c Control) oid() string {
	switch c.Kind {
	case "paging":
		return OIDPaging
	case "behera":
		return OIDBehera
	case "vchu-must":
		return OIDVChuMust
	case "vchu-warn":
		return OIDVChuWarn
	case "managedsait":
		return OIDManageDsaIT
	case "ms-notif":
		return OIDMSNotif
	case "ms-showdel":
		return OIDMSShowDel
	case "ms-ttl":
		return OIDMSLinkTTL
	}
	return c.OID
}

func (c Control) String() string {
	return fmt.Sprintf("%s{oid=%s crit=%v size=%d cookie=%x exp=%d grace=%d err=%d val=%q nov=%v}", c.Kind, c.oid(), c.Crit, c.Size, c.Cookie, c.Expire, c.Grace, c.Err, c.Value, c.NoValue)
}

// Node encodes the control per RFC 4511 4.1.11 and the control's own spec.
func (c Control) Node() *Node {
	n := Seq(Octet(c.oid()))
	if c.Crit {
		n.Kids = append(n.Kids, Bool(true))
	}
	switch c.Kind {
	case "paging":
		if !c.NoValue {
			inner := Seq(Int(int64(c.Size)), Prim(Universal, TagOctet, c.Cookie))
			n.Kids = append(n.Kids, Wrap(inner))
		}
	case "behera":
		if !c.NoValue {
			var inner *Node
			switch {
			case c.Grace >= 0:
				inner = Seq(Cons(Context, 0, Prim(Context, 1, EncInt(c.Grace))))
			case c.Expire >= 0:
				inner = Seq(Cons(Context, 0, Prim(Context, 0, EncInt(c.Expire))))
			default:
				inner = Seq(Prim(Context, 1, EncInt(c.Err)))
			}
			n.Kids = append(n.Kids, Wrap(inner))
		}
	case "vchu-warn":
		if !c.NoValue {
			n.Kids = append(n.Kids, Octet(strconv.FormatInt(c.Expire, 10)))
		}
	case "string":
		if c.Value != "" {
			n.Kids = append(n.Kids, Octet(c.Value))
		}
	}
	return n
}

type Change struct {
	Op   int64
	Type string
	Vals []string
}

type Attr struct {
	Type string
	Vals []string
}

// Req is the reference record of a request.
type Req struct {
	Op    string // bind search modify add delete extended unbind
	MsgID int64
	// bind
	Version  int64
	DN       string // bind name, search base, modify/add/delete dn
	Password string
	Sasl     bool
	// search
	Scope, Deref int64
	Size, Time   int64
	TypesOnly    bool
	Filter       string // canonical text
	FilterBER    []byte // encoded by go-ldap's compiler
	Attrs        []string
	// modify / add
	Changes []Change
	Attrs2  []Attr
	// extended
	Name     string
	HasValue bool
	Value    string
	Controls []Control
}

func attrNode(t string, vals []string) *Node {
	set := Set()
	for _, v := range vals {
		set.Kids = append(set.Kids, Octet(v))
	}
	return Seq(Octet(t), set)
}

// OpNode encodes the protocolOp.
func (r *Req) OpNode() *Node {
	switch r.Op {
	case "bind":
		var auth *Node
		if r.Sasl {
			auth = Cons(Context, 3, Octet("PLAIN"))
		} else {
			auth = CtxPrim(0, r.Password)
		}
		return Cons(Application, AppBindRequest, Int(r.Version), Octet(r.DN), auth)
	case "unbind":
		return Prim(Application, AppUnbindRequest, nil)
	case "search":
		attrs := Seq()
		for _, a := range r.Attrs {
			attrs.Kids = append(attrs.Kids, Octet(a))
		}
		return Cons(Application, AppSearchRequest, Octet(r.DN), Enum(r.Scope), Enum(r.Deref), Int(r.Size), Int(r.Time), Bool(r.TypesOnly), filterNode(r.FilterBER), attrs)
	case "modify":
		chs := Seq()
		for _, c := range r.Changes {
			chs.Kids = append(chs.Kids, Seq(Enum(c.Op), attrNode(c.Type, c.Vals)))
		}
		return Cons(Application, AppModifyRequest, Octet(r.DN), chs)
	case "add":
		as := Seq()
		for _, a := range r.Attrs2 {
			as.Kids = append(as.Kids, attrNode(a.Type, a.Vals))
		}
		return Cons(Application, AppAddRequest, Octet(r.DN), as)
	case "delete":
		return Prim(Application, AppDelRequest, []byte(r.DN))
	case "extended":
		n := Cons(Application, AppExtendedRequest, CtxPrim(0, r.Name))
		if r.HasValue {
			n.Kids = append(n.Kids, CtxPrim(1, r.Value))
		}
		return n
	}
	panic("codec: unknown op " + r.Op)
}

// Node encodes the whole LDAPMessage.
func (r *Req) Node() *Node {
	m := Seq(Int(r.MsgID), r.OpNode())
	if len(r.Controls) > 0 {
		cs := Cons(Context, 0)
		for _, c := range r.Controls {
			cs.Kids = append(cs.Kids, c.Node())
		}
		m.Kids = append(m.Kids, cs)
	}
	return m
}

func (r *Req) Bytes() []byte { return r.Node().Bytes() }

// ---- responses ----

type Resp struct {
	MsgID    int64
	Tag      int
	Code     int64
	Matched  string
	Diag     string
	RespName *string
	EntryDN  string
	Attrs    []Attr
	Controls []*Node
	IsEntry  bool
}

// ParseResponse strictly parses one LDAPMessage carrying a response.
func ParseResponse(frame []byte) (*Resp, error) {
	n, rest, err := ParseOne(frame)
	if err != nil {
		return nil, err
	}
	if len(rest) != 0 {
		return nil, errors.New("trailing bytes after LDAPMessage")
	}
	return ParseResponseNode(n)
}

func ParseResponseNode(n *Node) (*Resp, error) {
	if !n.Is(Universal, true, TagSequence) {
		return nil, errors.New("LDAPMessage is not a SEQUENCE")
	}
	if len(n.Kids) < 2 || len(n.Kids) > 3 {
		return nil, fmt.Errorf("LDAPMessage has %d elements", len(n.Kids))
	}
	if !n.Kids[0].Is(Universal, false, TagInteger) {
		return nil, errors.New("messageID is not an INTEGER")
	}
	id, err := DecInt(n.Kids[0].Content)
	if err != nil {
		return nil, err
	}
	op := n.Kids[1]
	if op.Class != Application || !op.Constructed {
		return nil, fmt.Errorf("protocolOp is not a constructed application value: %s", op)
	}
	r := &Resp{MsgID: id, Tag: op.Tag}
	if len(n.Kids) == 3 {
		cs := n.Kids[2]
		if !cs.Is(Context, true, 0) {
			return nil, errors.New("third element is not [0] controls")
		}
		for _, c := range cs.Kids {
			if !c.Is(Universal, true, TagSequence) || len(c.Kids) < 1 || len(c.Kids) > 3 || !c.Kids[0].Is(Universal, false, TagOctet) {
				return nil, fmt.Errorf("malformed control %s", c)
			}
			r.Controls = append(r.Controls, c)
		}
	}
	if op.Tag == AppSearchEntry {
		r.IsEntry = true
		if len(op.Kids) != 2 || !op.Kids[0].Is(Universal, false, TagOctet) || !op.Kids[1].Is(Universal, true, TagSequence) {
			return nil, fmt.Errorf("malformed SearchResultEntry %s", op)
		}
		r.EntryDN = string(op.Kids[0].Content)
		for _, a := range op.Kids[1].Kids {
			if !a.Is(Universal, true, TagSequence) || len(a.Kids) != 2 || !a.Kids[0].Is(Universal, false, TagOctet) || !a.Kids[1].Is(Universal, true, TagSet) {
				return nil, fmt.Errorf("malformed PartialAttribute %s", a)
			}
			at := Attr{Type: string(a.Kids[0].Content)}
			for _, v := range a.Kids[1].Kids {
				if !v.Is(Universal, false, TagOctet) {
					return nil, fmt.Errorf("attribute value is not an OCTET STRING: %s", v)
				}
				at.Vals = append(at.Vals, string(v.Content))
			}
			r.Attrs = append(r.Attrs, at)
		}
		return r, nil
	}
	if len(op.Kids) < 3 {
		return nil, fmt.Errorf("LDAPResult with %d elements", len(op.Kids))
	}
	if !op.Kids[0].Is(Universal, false, TagEnumerated) {
		return nil, errors.New("resultCode is not ENUMERATED")
	}
	if r.Code, err = DecInt(op.Kids[0].Content); err != nil {
		return nil, err
	}
	if !op.Kids[1].Is(Universal, false, TagOctet) || !op.Kids[2].Is(Universal, false, TagOctet) {
		return nil, errors.New("matchedDN/diagnosticMessage are not OCTET STRINGs")
	}
	r.Matched = string(op.Kids[1].Content)
	r.Diag = string(op.Kids[2].Content)
	for _, k := range op.Kids[3:] {
		if k.Class != Context {
			return nil, fmt.Errorf("unexpected element in LDAPResult: %s", k)
		}
		if op.Tag == AppExtendedResp && k.Is(Context, false, 10) {
			s := string(k.Content)
			r.RespName = &s
		}
	}
	return r, nil
}

// ParseControl decodes a control node into the reference record (independent decoder).
func ParseControl(c *Node) (Control, error) {
	out := Control{Expire: -1, Grace: -1, Err: -1}
	if !c.Is(Universal, true, TagSequence) || len(c.Kids) < 1 || len(c.Kids) > 3 {
		return out, fmt.Errorf("malformed control %s", c)
	}
	out.OID = string(c.Kids[0].Content)
	var val *Node
	for _, k := range c.Kids[1:] {
		switch {
		case k.Is(Universal, false, TagBoolean):
			out.Crit = len(k.Content) == 1 && k.Content[0] != 0
		case k.Is(Universal, false, TagOctet):
			val = k
		default:
			return out, fmt.Errorf("unexpected control element %s", k)
		}
	}
	switch out.OID {
	case OIDPaging:
		out.Kind = "paging"
		if val == nil {
			out.NoValue = true
			return out, nil
		}
		in, rest, err := ParseOne(val.Content)
		if err != nil || len(rest) != 0 || !in.Is(Universal, true, TagSequence) || len(in.Kids) != 2 {
			return out, fmt.Errorf("malformed paging value %x", val.Content)
		}
		sz, err := DecInt(in.Kids[0].Content)
		if err != nil {
			return out, err
		}
		out.Size = uint32(sz)
		out.Cookie = in.Kids[1].Content
	case OIDBehera:
		out.Kind = "behera"
		if val == nil {
			out.NoValue = true
			return out, nil
		}
		in, rest, err := ParseOne(val.Content)
		if err != nil || len(rest) != 0 || !in.Is(Universal, true, TagSequence) {
			return out, fmt.Errorf("malformed behera value %x", val.Content)
		}
		for _, k := range in.Kids {
			switch {
			case k.Is(Context, true, 0) && len(k.Kids) == 1:
				v, err := DecInt(k.Kids[0].Content)
				if err != nil {
					return out, err
				}
				if k.Kids[0].Tag == 0 {
					out.Expire = v
				} else {
					out.Grace = v
				}
			case k.Is(Context, false, 1):
				v, err := DecInt(k.Content)
				if err != nil {
					return out, err
				}
				out.Err = v
			default:
				return out, fmt.Errorf("malformed behera element %s", k)
			}
		}
	case OIDVChuMust:
		out.Kind = "vchu-must"
	case OIDVChuWarn:
		out.Kind = "vchu-warn"
		if val == nil {
			out.NoValue = true
			return out, nil
		}
		v, err := strconv.ParseInt(string(val.Content), 10, 64)
		if err != nil {
			return out, err
		}
		out.Expire = v
	case OIDManageDsaIT:
		out.Kind = "managedsait"
	case OIDMSNotif:
		out.Kind = "ms-notif"
	case OIDMSShowDel:
		out.Kind = "ms-showdel"
	case OIDMSLinkTTL:
		out.Kind = "ms-ttl"
	default:
		out.Kind = "string"
		if val != nil {
			out.Value = string(val.Content)
		}
	}
	return out, nil
}

// filterNode parses pre-encoded filter bytes into a tree (so that mutations reach inside); falls back to raw bytes.
func filterNode(b []byte) *Node {
	if n, rest, err := ParseOne(b); err == nil && len(rest) == 0 {
		return n
	}
	return RawNode(b)
}
