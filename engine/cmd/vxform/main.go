// vxform: typed source transformer. Rewrites the non-test files of github.com/jimlambrt/gldap and its
// testdirectory package so that they run under the controlled scheduler:
//
//  1. selected package-level identifiers (sync.Mutex, net.Listen, time.Now, context.WithCancel, bufio.NewWriter,
//     sync/atomic.*, ...) are re-bound to the shims; everything else keeps its real package
//  2. `go f(x)` becomes vrt.Go(func(){ f(x) }) with arguments evaluated first
//  3. channel send / receive / close on plain statements become vrt.Send / Recv / Close
//  4. reads and writes of fields of gldap/testdirectory structs reached through a pointer are recorded for the
//     happens-before race oracle (vrt.Rd / vrt.W with a static site id)
//  5. the export files of engine/export are added to the packages before transformation
//
// Output: transformed files under -out and a go build overlay (-overlay) that places them at -virt.
package main

import (
	"bytes"
	"encoding/json"
	"flag"
	"fmt"
	"go/ast"
	"go/format"
	"go/token"
	"go/types"
	"os"
	"path/filepath"
	"sort"
	"strconv"
	"strings"

	"golang.org/x/tools/go/ast/astutil"
	"golang.org/x/tools/go/packages"
)

const modPath = "github.com/jimlambrt/gldap"
const rtPath = "verif/rt"

// rebind: original package path -> identifier -> shim package path
var rebind = map[string]map[string]string{
	"sync":        {"Mutex": "verif/shim/vsync", "RWMutex": "verif/shim/vsync", "WaitGroup": "verif/shim/vsync", "Once": "verif/shim/vsync", "Pool": "verif/shim/vsync"},
	"net":         {"Listen": "verif/shim/vnet", "DefaultResolver": "verif/shim/vnet", "ListenConfig": "verif/shim/vnet"},
	"context":     {"WithCancel": "verif/shim/vctx", "WithTimeout": "verif/shim/vctx", "WithDeadline": "verif/shim/vctx"},
	"time":        {"Now": "verif/shim/vtime", "Sleep": "verif/shim/vtime", "Since": "verif/shim/vtime", "Until": "verif/shim/vtime", "After": "verif/shim/vtime", "AfterFunc": "verif/shim/vtime"},
	"bufio":       {"NewReader": "verif/shim/vbufio", "NewWriter": "verif/shim/vbufio", "NewReaderSize": "verif/shim/vbufio", "NewWriterSize": "verif/shim/vbufio", "Reader": "verif/shim/vbufio", "Writer": "verif/shim/vbufio"},
	"sync/atomic": {"*": "verif/shim/vatomic"},
	"runtime":     {"GOMAXPROCS": "verif/shim/vtime", "NumCPU": "verif/shim/vtime"},
}

var shimAlias = map[string]string{
	"verif/shim/vsync": "vsync", "verif/shim/vnet": "vnet", "verif/shim/vctx": "vctx", "verif/shim/vtime": "vtime",
	"verif/shim/vbufio": "vbufio", "verif/shim/vatomic": "vatomic",
}

var ownPkgs = map[string]bool{modPath: true, modPath + "/testdirectory": true}

type xf struct {
	pkg        *packages.Package
	nRd, nW    int
	needRT     bool
	needShim   map[string]bool
	siteFn     []string
	siteLoc    []string
	curFn      string
	virtPath   string // import path the transformed module root gets
	warn       []string
	plain      bool
	captured   map[*types.Var]bool // locals of the current function that a function literal captures and that are reassigned
	mutGlobals map[*types.Var]bool // package-level variables that some function assigns to
	selSeq     int
}

func main() {
	src := flag.String("src", "/repo", "repository to transform")
	out := flag.String("out", "", "output directory")
	export := flag.String("export", "", "directory with *_export.go.txt files")
	overlay := flag.String("overlay", "", "overlay json to write")
	virt := flag.String("virt", "", "directory (inside the engine module) where the overlay places the transformed module")
	virtImport := flag.String("virtimport", "verif/gldapx", "import path of -virt")
	plain := flag.Bool("plain", false, "only re-home the packages (import paths, export files): no instrumentation, no re-binding")
	flag.Parse()
	if *out == "" || *virt == "" {
		fmt.Fprintln(os.Stderr, "usage: vxform -src DIR -out DIR -export DIR -overlay FILE -virt DIR")
		os.Exit(2)
	}
	ov := map[string][]byte{}
	if *export != "" {
		b, err := os.ReadFile(filepath.Join(*export, "gldap_export.go.txt"))
		if err != nil {
			fail(err)
		}
		ov[filepath.Join(*src, "zz_verif_export.go")] = b
		b, err = os.ReadFile(filepath.Join(*export, "testdirectory_export.go.txt"))
		if err != nil {
			fail(err)
		}
		ov[filepath.Join(*src, "testdirectory", "zz_verif_export.go")] = b
	}
	cfg := &packages.Config{
		Mode:    packages.NeedName | packages.NeedFiles | packages.NeedCompiledGoFiles | packages.NeedSyntax | packages.NeedTypes | packages.NeedTypesInfo | packages.NeedImports | packages.NeedDeps,
		Dir:     *src,
		Overlay: ov,
		Env:     append(os.Environ(), "GOFLAGS=-mod=mod"),
	}
	pkgs, err := packages.Load(cfg, ".", "./testdirectory")
	if err != nil {
		fail(err)
	}
	goVersion = ""
	if b, err := os.ReadFile(filepath.Join(*src, "go.mod")); err == nil {
		for _, l := range strings.Split(string(b), "\n") {
			f := strings.Fields(l)
			if len(f) == 2 && f[0] == "go" {
				v := strings.Split(f[1], ".")
				if len(v) >= 2 {
					goVersion = v[0] + "." + v[1]
				}
			}
		}
	}
	replace := map[string]string{}
	for _, p := range pkgs {
		if len(p.Errors) > 0 {
			for _, e := range p.Errors {
				fmt.Fprintln(os.Stderr, "load error:", e)
			}
			os.Exit(2)
		}
		x := &xf{pkg: p, virtPath: *virtImport, plain: *plain}
		x.findMutGlobals()
		rel, _ := filepath.Rel(modPath, p.PkgPath)
		if p.PkgPath == modPath {
			rel = "."
		}
		for i, f := range p.Syntax {
			name := p.CompiledGoFiles[i]
			x.needRT = false
			x.needShim = map[string]bool{}
			f.Comments = nil
			x.file(f)
			dst := filepath.Join(*out, rel, filepath.Base(name))
			os.MkdirAll(filepath.Dir(dst), 0o755)
			var buf bytes.Buffer
			if goVersion != "" {
				// the transformed files keep the language version of the repository's go.mod (loop variable semantics!)
				fmt.Fprintf(&buf, "//go:build go%s\n\n", goVersion)
			}
			if err := format.Node(&buf, p.Fset, f); err != nil {
				fail(fmt.Errorf("%s: %v", name, err))
			}
			if err := os.WriteFile(dst, buf.Bytes(), 0o644); err != nil {
				fail(err)
			}
			replace[filepath.Join(*virt, rel, filepath.Base(name))] = dst
		}
		// sites file
		var sb strings.Builder
		fmt.Fprintf(&sb, "package %s\n\nimport vrt %q\n\nvar _vsite = vrt.RegisterSites(\n\t[]string{", p.Name, rtPath)
		for _, s := range x.siteFn {
			fmt.Fprintf(&sb, "%q, ", s)
		}
		sb.WriteString("},\n\t[]string{")
		for _, s := range x.siteLoc {
			fmt.Fprintf(&sb, "%q, ", s)
		}
		sb.WriteString("})\n")
		if !*plain {
			// package-level variables: their initial values are restored before every execution
			var gv []string
			for _, f := range p.Syntax {
				for _, d := range f.Decls {
					gd, ok := d.(*ast.GenDecl)
					if !ok || gd.Tok != token.VAR {
						continue
					}
					for _, sp := range gd.Specs {
						vs, ok := sp.(*ast.ValueSpec)
						if !ok {
							continue
						}
						for _, n := range vs.Names {
							if n.Name != "_" && !strings.HasPrefix(n.Name, "_v") {
								gv = append(gv, n.Name)
							}
						}
					}
				}
			}
			if len(gv) > 0 {
				sort.Strings(gv)
				fmt.Fprintf(&sb, "\nfunc init() {\n\tvrt.RegisterGlobals(")
				for _, n := range gv {
					fmt.Fprintf(&sb, "&%s, ", n)
				}
				sb.WriteString(")\n}\n")
			}
		}
		dst := filepath.Join(*out, rel, "zz_vsites.go")
		if err := os.WriteFile(dst, []byte(sb.String()), 0o644); err != nil {
			fail(err)
		}
		replace[filepath.Join(*virt, rel, "zz_vsites.go")] = dst
		fmt.Printf("%s: files=%d reads=%d writes=%d sites=%d\n", p.PkgPath, len(p.Syntax), x.nRd, x.nW, len(x.siteFn))
		for _, wn := range x.warn {
			fmt.Println("  WARN:", wn)
		}
	}
	if *overlay != "" {
		b, _ := json.MarshalIndent(map[string]interface{}{"Replace": replace}, "", " ")
		if err := os.WriteFile(*overlay, b, 0o644); err != nil {
			fail(err)
		}
	}
}

func fail(err error) {
	fmt.Fprintln(os.Stderr, "vxform:", err)
	os.Exit(2)
}

func (x *xf) site(loc string) ast.Expr {
	x.siteFn = append(x.siteFn, x.curFn)
	x.siteLoc = append(x.siteLoc, loc)
	return &ast.BinaryExpr{X: ast.NewIdent("_vsite"), Op: token.ADD, Y: &ast.BasicLit{Kind: token.INT, Value: strconv.Itoa(len(x.siteFn) - 1)}}
}

func (x *xf) file(f *ast.File) {
	fset := x.pkg.Fset
	for _, d := range f.Decls {
		x.curFn = x.pkg.Name + ".<init>"
		if fd, ok := d.(*ast.FuncDecl); ok {
			x.curFn = x.pkg.Name + "." + fd.Name.Name
			if fd.Recv != nil && len(fd.Recv.List) == 1 {
				t := fd.Recv.List[0].Type
				star := ""
				if st, ok := t.(*ast.StarExpr); ok {
					t = st.X
					star = "*"
				}
				if id, ok := t.(*ast.Ident); ok {
					x.curFn = fmt.Sprintf("%s.(%s%s).%s", x.pkg.Name, star, id.Name, fd.Name.Name)
				}
			}
		}
		if x.plain {
			continue
		}
		x.captured = map[*types.Var]bool{}
		x.findCaptured(d)
		x.keepReassigned(d)
		astutil.Apply(d, x.pre, x.post)
	}
	// imports: own module path -> virtual path
	for _, imp := range f.Imports {
		p, _ := strconv.Unquote(imp.Path.Value)
		if ownPkgs[p] {
			np := x.virtPath + strings.TrimPrefix(p, modPath)
			if imp.Name == nil {
				imp.Name = ast.NewIdent(p[strings.LastIndex(p, "/")+1:])
			}
			imp.Path.Value = strconv.Quote(np)
		}
	}
	for sp := range x.needShim {
		astutil.AddNamedImport(fset, f, shimAlias[sp], sp)
	}
	if x.needRT {
		astutil.AddNamedImport(fset, f, "vrt", rtPath)
	}
	// drop imports that are no longer referenced
	for _, imp := range append([]*ast.ImportSpec(nil), f.Imports...) {
		p, _ := strconv.Unquote(imp.Path.Value)
		if _, ok := rebind[p]; !ok {
			continue
		}
		name := p[strings.LastIndex(p, "/")+1:]
		if imp.Name != nil {
			name = imp.Name.Name
		}
		if name == "_" || name == "." {
			continue
		}
		used := false
		ast.Inspect(f, func(n ast.Node) bool {
			if se, ok := n.(*ast.SelectorExpr); ok {
				if id, ok := se.X.(*ast.Ident); ok && id.Name == name && id.Obj == nil {
					if pn, ok := x.pkg.TypesInfo.Uses[id].(*types.PkgName); ok && pn.Imported().Path() == p {
						used = true
					}
				}
			}
			return !used
		})
		if !used {
			if imp.Name != nil {
				astutil.DeleteNamedImport(fset, f, imp.Name.Name, p)
			} else {
				astutil.DeleteImport(fset, f, p)
			}
		}
	}
}

// findCaptured collects the local variables that function literals refer to: a literal started with `go`
// runs concurrently with its parent, and a literal that escapes (a handler returned by a constructor, a
// callback) may be called by any number of goroutines at once.
func (x *xf) findCaptured(d ast.Decl) {
	ast.Inspect(d, func(n ast.Node) bool {
		lit, ok := n.(*ast.FuncLit)
		if !ok {
			return true
		}
		ast.Inspect(lit.Body, func(m ast.Node) bool {
			id, ok := m.(*ast.Ident)
			if !ok {
				return true
			}
			v, ok := x.pkg.TypesInfo.Uses[id].(*types.Var)
			if !ok || v.IsField() || v.Pkg() != x.pkg.Types || v.Parent() == x.pkg.Types.Scope() {
				return true
			}
			if v.Pos() >= lit.Pos() && v.Pos() <= lit.End() {
				return true // declared inside the literal
			}
			if !simpleType(v.Type()) || isShimType(v.Type()) {
				return true
			}
			x.captured[v] = true
			return true
		})
		return true
	})
}

// keepReassigned restricts the captured set to variables that are assigned again after their declaration
// (a variable that is only defined once is written before any goroutine that captures it is started).
func (x *xf) keepReassigned(d ast.Decl) {
	re := map[*types.Var]bool{}
	mark := func(e ast.Expr) {
		for {
			if p, ok := e.(*ast.ParenExpr); ok {
				e = p.X
				continue
			}
			break
		}
		if id, ok := e.(*ast.Ident); ok {
			if v, ok := x.pkg.TypesInfo.Uses[id].(*types.Var); ok {
				re[v] = true
			}
		}
	}
	ast.Inspect(d, func(n ast.Node) bool {
		switch t := n.(type) {
		case *ast.AssignStmt:
			for _, l := range t.Lhs {
				mark(l) // Uses is only set for idents that are not being defined
			}
		case *ast.IncDecStmt:
			mark(t.X)
		case *ast.RangeStmt:
			if t.Tok == token.ASSIGN {
				if t.Key != nil {
					mark(t.Key)
				}
				if t.Value != nil {
					mark(t.Value)
				}
			}
		}
		return true
	})
	for v := range x.captured {
		if !re[v] {
			delete(x.captured, v)
		}
	}
}

// simpleType: values whose copy through vrt.Rd is harmless and that never need to stay addressable.
func simpleType(t types.Type) bool {
	switch t.Underlying().(type) {
	case *types.Basic, *types.Pointer, *types.Interface, *types.Slice, *types.Map, *types.Chan, *types.Signature:
		return true
	}
	return false
}

// findMutGlobals collects the package-level variables (of simple types) that are assigned to inside a function
// body: shared mutable state that any goroutine may touch.
func (x *xf) findMutGlobals() {
	x.mutGlobals = map[*types.Var]bool{}
	mark := func(e ast.Expr) {
		for {
			if p, ok := e.(*ast.ParenExpr); ok {
				e = p.X
				continue
			}
			// G[k] = v on a package-level map is a write of the map
			if ix, ok := e.(*ast.IndexExpr); ok {
				if _, isMap := x.mapType(ix.X); isMap {
					e = ix.X
					continue
				}
			}
			break
		}
		id, ok := e.(*ast.Ident)
		if !ok {
			return
		}
		v, ok := x.pkg.TypesInfo.Uses[id].(*types.Var)
		if !ok || v.IsField() || v.Pkg() != x.pkg.Types || v.Parent() != x.pkg.Types.Scope() {
			return
		}
		if !simpleType(v.Type()) || isShimType(v.Type()) {
			return
		}
		x.mutGlobals[v] = true
	}
	for _, f := range x.pkg.Syntax {
		for _, d := range f.Decls {
			fd, ok := d.(*ast.FuncDecl)
			if !ok || fd.Body == nil || fd.Name.Name == "init" {
				continue
			}
			ast.Inspect(fd.Body, func(n ast.Node) bool {
				switch t := n.(type) {
				case *ast.AssignStmt:
					for _, l := range t.Lhs {
						mark(l)
					}
				case *ast.IncDecStmt:
					mark(t.X)
				case *ast.CallExpr:
					if (x.builtin(t, "delete") || x.builtin(t, "clear")) && len(t.Args) > 0 {
						if _, isMap := x.mapType(t.Args[0]); isMap {
							mark(t.Args[0])
						}
					}
				}
				return true
			})
		}
	}
}

func (x *xf) isShared(v *types.Var) bool { return x.captured[v] || x.mutGlobals[v] }

func (x *xf) capturedIdent(e ast.Expr) *ast.Ident {
	for {
		if p, ok := e.(*ast.ParenExpr); ok {
			e = p.X
			continue
		}
		break
	}
	id, ok := e.(*ast.Ident)
	if !ok {
		return nil
	}
	if v, ok := x.pkg.TypesInfo.Uses[id].(*types.Var); ok && x.isShared(v) {
		return id
	}
	return nil
}

// mapElemOf: for G[k] with G a shared (package-level or captured) map variable, the identifier G.
func (x *xf) mapElemOf(e ast.Expr) *ast.Ident {
	for {
		if p, ok := e.(*ast.ParenExpr); ok {
			e = p.X
			continue
		}
		break
	}
	ix, ok := e.(*ast.IndexExpr)
	if !ok {
		return nil
	}
	if _, isMap := x.mapType(ix.X); !isMap {
		return nil
	}
	return x.capturedIdent(ix.X)
}

// foreignStructGlobal: id names a package-level variable of this package whose type is a struct type defined in
// another package (bytes.Reader, bytes.Buffer, strings.Builder, ...) and not one of the modelled ones.
func (x *xf) foreignStructGlobal(id *ast.Ident) bool {
	v, ok := x.pkg.TypesInfo.Uses[id].(*types.Var)
	if !ok || v.IsField() || v.Pkg() != x.pkg.Types || v.Parent() != x.pkg.Types.Scope() || isShimType(v.Type()) {
		return false
	}
	n, ok := v.Type().(*types.Named)
	if !ok || n.Obj().Pkg() == nil || ownPkgs[n.Obj().Pkg().Path()] {
		return false
	}
	_, isStruct := n.Underlying().(*types.Struct)
	return isStruct
}

func (x *xf) localLoc(id *ast.Ident) string {
	if v, ok := x.pkg.TypesInfo.Uses[id].(*types.Var); ok && x.mutGlobals[v] {
		return "global " + x.pkg.Name + "." + id.Name + mapMark(v.Type())
	}
	// the variable belongs to the function that declares it, whichever literal touches it
	fn := x.curFn
	return "local " + fn + "." + id.Name
}

func isShimType(t types.Type) bool {
	for {
		switch tt := t.(type) {
		case *types.Pointer:
			t = tt.Elem()
			continue
		case *types.Named:
			if tt.Obj().Pkg() != nil {
				p := tt.Obj().Pkg().Path()
				if p == "sync" || p == "sync/atomic" {
					return true
				}
			}
		}
		return false
	}
}

// trackedField reports whether se selects a field of a struct declared in our packages, reached through a pointer.
func (x *xf) trackedField(se *ast.SelectorExpr) bool {
	sel, ok := x.pkg.TypesInfo.Selections[se]
	if !ok || sel.Kind() != types.FieldVal {
		return false
	}
	v := sel.Obj().(*types.Var)
	if v.Pkg() == nil || !ownPkgs[v.Pkg().Path()] {
		return false
	}
	if isShimType(v.Type()) {
		return false
	}
	if sel.Indirect() {
		return true
	}
	if t := x.pkg.TypesInfo.TypeOf(se.X); t != nil {
		if _, ok := t.Underlying().(*types.Pointer); ok {
			return true
		}
	}
	if inner, ok := se.X.(*ast.SelectorExpr); ok {
		return x.trackedField(inner)
	}
	return false
}

func (x *xf) loc(se *ast.SelectorExpr) string {
	sel := x.pkg.TypesInfo.Selections[se]
	t := sel.Recv()
	for {
		if p, ok := t.(*types.Pointer); ok {
			t = p.Elem()
			continue
		}
		break
	}
	name := "?"
	if n, ok := t.(*types.Named); ok {
		name = n.Obj().Name()
	}
	if _, ok := sel.Obj().Type().Underlying().(*types.Map); ok {
		return name + "." + sel.Obj().Name() + "#map"
	}
	return name + "." + sel.Obj().Name()
}

func mapMark(t types.Type) string {
	if _, ok := t.Underlying().(*types.Map); ok {
		return "#map"
	}
	return ""
}

func (x *xf) addressable(e ast.Expr) bool {
	tv, ok := x.pkg.TypesInfo.Types[e]
	return ok && tv.Addressable()
}

func (x *xf) rdCall(se *ast.SelectorExpr) ast.Expr {
	return &ast.CallExpr{Fun: &ast.SelectorExpr{X: ast.NewIdent("vrt"), Sel: ast.NewIdent("Rd")}, Args: []ast.Expr{&ast.UnaryExpr{Op: token.AND, X: se}, x.site(x.loc(se))}}
}
func (x *xf) wStmt(se *ast.SelectorExpr) ast.Stmt {
	return &ast.ExprStmt{X: &ast.CallExpr{Fun: &ast.SelectorExpr{X: ast.NewIdent("vrt"), Sel: ast.NewIdent("W")}, Args: []ast.Expr{&ast.UnaryExpr{Op: token.AND, X: se}, x.site(x.loc(se))}}}
}

func (x *xf) wIdent(id *ast.Ident) ast.Stmt {
	return &ast.ExprStmt{X: &ast.CallExpr{Fun: &ast.SelectorExpr{X: ast.NewIdent("vrt"), Sel: ast.NewIdent("W")}, Args: []ast.Expr{&ast.UnaryExpr{Op: token.AND, X: ast.NewIdent(id.Name)}, x.site(x.localLoc(id))}}}
}

// written returns the tracked field selector that expression e (an assignment target) writes, if any.
func (x *xf) written(e ast.Expr) *ast.SelectorExpr {
	for {
		switch t := e.(type) {
		case *ast.ParenExpr:
			e = t.X
		case *ast.IndexExpr: // x.f[i] = v : contents write attributed to the field
			e = t.X
		case *ast.SliceExpr: // copy(x.f[i:], ...)
			e = t.X
		case *ast.SelectorExpr:
			if x.trackedField(t) {
				return t
			}
			return nil
		default:
			return nil
		}
	}
}

// starWrites: `*p = v` where p points to one of our structs: one write per field.
func (x *xf) starWrites(e ast.Expr) []ast.Stmt {
	st, ok := e.(*ast.StarExpr)
	if !ok {
		return nil
	}
	id, ok := st.X.(*ast.Ident)
	if !ok {
		return nil
	}
	t := x.pkg.TypesInfo.TypeOf(st.X)
	if t == nil {
		return nil
	}
	p, ok := t.Underlying().(*types.Pointer)
	if !ok {
		return nil
	}
	n, ok := p.Elem().(*types.Named)
	if !ok || n.Obj().Pkg() == nil || !ownPkgs[n.Obj().Pkg().Path()] {
		return nil
	}
	s, ok := n.Underlying().(*types.Struct)
	if !ok {
		return nil
	}
	var out []ast.Stmt
	for i := 0; i < s.NumFields(); i++ {
		f := s.Field(i)
		if isShimType(f.Type()) || (!f.Exported() && f.Pkg() != x.pkg.Types) {
			continue
		}
		se := &ast.SelectorExpr{X: ast.NewIdent(id.Name), Sel: ast.NewIdent(f.Name())}
		out = append(out, &ast.ExprStmt{X: &ast.CallExpr{Fun: &ast.SelectorExpr{X: ast.NewIdent("vrt"), Sel: ast.NewIdent("W")}, Args: []ast.Expr{&ast.UnaryExpr{Op: token.AND, X: se}, x.site(n.Obj().Name() + "." + f.Name() + mapMark(f.Type()))}}})
	}
	return out
}

var skip = map[ast.Node]bool{}
var goVersion string

func markSkip(e ast.Expr) {
	for {
		skip[e] = true
		switch t := e.(type) {
		case *ast.ParenExpr:
			e = t.X
		case *ast.IndexExpr:
			e = t.X
		case *ast.SliceExpr:
			e = t.X
		default:
			return
		}
	}
}

var inComm = map[ast.Node]bool{}
var rangeOverMap = map[ast.Node]bool{}
var appendLoc = map[*ast.CallExpr]string{}
var delTarget = map[*ast.CallExpr]*ast.Ident{}
var builtinWrite = map[*ast.CallExpr]*ast.SelectorExpr{}
var inPlace = map[*ast.Ident]bool{} // uses of a foreign-struct package-level value that work on it in place
var rangeOverChan = map[ast.Node]bool{}

func (x *xf) pre(c *astutil.Cursor) bool {
	switch n := c.Node().(type) {
	case *ast.CallExpr:
		// append(s, ...): the text of s is taken before s is rewritten
		if x.builtin(n, "append") && len(n.Args) >= 1 {
			appendLoc[n] = "slot " + types.ExprString(n.Args[0])
		}
		if (x.builtin(n, "delete") || x.builtin(n, "clear")) && len(n.Args) > 0 {
			if _, isMap := x.mapType(n.Args[0]); isMap {
				if id := x.capturedIdent(n.Args[0]); id != nil {
					delTarget[n] = id
				}
			}
		}
		// copy(x.f, ...), delete(x.f, k), clear(x.f): a write of the field (the operand stays as it is)
		if (x.builtin(n, "copy") || x.builtin(n, "delete") || x.builtin(n, "clear")) && len(n.Args) > 0 {
			if se := x.written(n.Args[0]); se != nil {
				builtinWrite[n] = se
				markSkip(n.Args[0])
			}
		}
		// G.M(...) with G a package-level value of a struct type from another package and M a pointer method:
		// the call works on G in place
		if se, ok := n.Fun.(*ast.SelectorExpr); ok {
			if id, ok := se.X.(*ast.Ident); ok && x.foreignStructGlobal(id) {
				if sel := x.pkg.TypesInfo.Selections[se]; sel != nil && sel.Kind() == types.MethodVal {
					if sig, ok := sel.Obj().Type().(*types.Signature); ok && sig.Recv() != nil {
						if _, ptr := sig.Recv().Type().(*types.Pointer); ptr {
							inPlace[id] = true
						}
					}
				}
			}
		}
	case *ast.UnaryExpr:
		if n.Op == token.AND {
			if id, ok := n.X.(*ast.Ident); ok && x.foreignStructGlobal(id) {
				inPlace[id] = true
			}
			markSkip(n.X)
		}
	case *ast.RangeStmt:
		// types are looked up before the operand is rewritten
		if mt, ok := x.mapType(n.X); ok && orderedKey(mt) {
			rangeOverMap[n] = true
		}
		if x.isChan(n.X) {
			rangeOverChan[n] = true
		}
		if n.Key != nil {
			if id := x.capturedIdent(n.Key); id != nil {
				skip[id] = true
			}
		}
		if n.Value != nil {
			if id := x.capturedIdent(n.Value); id != nil {
				skip[id] = true
			}
		}
	case *ast.CommClause:
		// the communication of a select case stays native (the select itself is handled as a whole)
		if n.Comm != nil {
			inComm[n.Comm] = true
			ast.Inspect(n.Comm, func(m ast.Node) bool {
				if u, ok := m.(*ast.UnaryExpr); ok && u.Op == token.ARROW {
					inComm[u] = true
				}
				return true
			})
		}
	case *ast.AssignStmt:
		for _, l := range n.Lhs {
			if se := x.written(l); se != nil {
				markSkip(l)
			}
			if id := x.capturedIdent(l); id != nil {
				skip[id] = true
			}
			if id := x.mapElemOf(l); id != nil {
				skip[id] = true
			}
		}
	case *ast.IncDecStmt:
		if se := x.written(n.X); se != nil {
			markSkip(n.X)
		}
		if id := x.capturedIdent(n.X); id != nil {
			skip[id] = true
		}
	case *ast.SelectorExpr:
		// do not wrap struct-valued intermediates: in x.a.b keep x.a raw when it is a struct value
		if inner, ok := n.X.(*ast.SelectorExpr); ok {
			if t := x.pkg.TypesInfo.TypeOf(inner); t != nil {
				if _, isPtr := t.Underlying().(*types.Pointer); !isPtr {
					if _, isIface := t.Underlying().(*types.Interface); !isIface {
						skip[inner] = true
					}
				}
			}
		}
	}
	return true
}

func inBlock(c *astutil.Cursor) bool {
	switch c.Parent().(type) {
	case *ast.BlockStmt, *ast.CaseClause, *ast.CommClause:
		return c.Index() >= 0
	}
	return false
}

func (x *xf) builtin(call *ast.CallExpr, name string) bool {
	id, ok := call.Fun.(*ast.Ident)
	if !ok || id.Name != name {
		return false
	}
	_, isB := x.pkg.TypesInfo.Uses[id].(*types.Builtin)
	return isB
}

func isBlank(e ast.Expr) bool {
	id, ok := e.(*ast.Ident)
	return ok && id.Name == "_"
}

func (x *xf) mapType(e ast.Expr) (*types.Map, bool) {
	t := x.pkg.TypesInfo.TypeOf(e)
	if t == nil {
		return nil, false
	}
	m, ok := t.Underlying().(*types.Map)
	return m, ok
}

func orderedKey(m *types.Map) bool {
	b, ok := m.Key().Underlying().(*types.Basic)
	return ok && b.Info()&(types.IsInteger|types.IsFloat|types.IsString) != 0
}

func (x *xf) isChan(e ast.Expr) bool {
	t := x.pkg.TypesInfo.TypeOf(e)
	if t == nil {
		return false
	}
	_, ok := t.Underlying().(*types.Chan)
	return ok
}

func vrtCall(name string, args ...ast.Expr) *ast.CallExpr {
	return &ast.CallExpr{Fun: &ast.SelectorExpr{X: ast.NewIdent("vrt"), Sel: ast.NewIdent(name)}, Args: args}
}

// blockingSelect rewrites a select without default into
//
//	{ _vsc0 := ch0; _vsc1 := ch1; switch vrt.Select(false, vrt.RecvCase(_vsc0), vrt.SendCase(_vsc1)) {
//	  case 0: v, ok := vrt.Recv2(_vsc0); body0
//	  case 1: vrt.Send(_vsc1, x); body1 } }
//
// so that blocking, the choice among ready alternatives and the communication itself are all the scheduler's.
func (x *xf) blockingSelect(n *ast.SelectStmt) ast.Stmt {
	x.selSeq++
	var pre []ast.Stmt
	var cases []ast.Expr
	sw := &ast.SwitchStmt{Body: &ast.BlockStmt{}}
	recvOf := func(e ast.Expr) ast.Expr {
		for {
			if p, ok := e.(*ast.ParenExpr); ok {
				e = p.X
				continue
			}
			break
		}
		if u, ok := e.(*ast.UnaryExpr); ok && u.Op == token.ARROW {
			return u.X
		}
		return nil
	}
	for i, cl := range n.Body.List {
		cc, ok := cl.(*ast.CommClause)
		if !ok || cc.Comm == nil {
			return nil
		}
		tmp := ast.NewIdent(fmt.Sprintf("_vsc%d_%d", x.selSeq, i))
		var chExpr ast.Expr
		var first ast.Stmt
		switch cm := cc.Comm.(type) {
		case *ast.SendStmt:
			chExpr = cm.Chan
			cases = append(cases, vrtCall("SendCase", tmp))
			first = &ast.ExprStmt{X: vrtCall("Send", tmp, cm.Value)}
		case *ast.ExprStmt:
			chExpr = recvOf(cm.X)
			if chExpr == nil {
				return nil
			}
			cases = append(cases, vrtCall("RecvCase", tmp))
			first = &ast.ExprStmt{X: vrtCall("Recv", tmp)}
		case *ast.AssignStmt:
			if len(cm.Rhs) != 1 {
				return nil
			}
			chExpr = recvOf(cm.Rhs[0])
			if chExpr == nil {
				return nil
			}
			cases = append(cases, vrtCall("RecvCase", tmp))
			fn := "Recv"
			if len(cm.Lhs) == 2 {
				fn = "Recv2"
			}
			first = &ast.AssignStmt{Lhs: cm.Lhs, Tok: cm.Tok, Rhs: []ast.Expr{vrtCall(fn, tmp)}}
		default:
			return nil
		}
		pre = append(pre, &ast.AssignStmt{Lhs: []ast.Expr{tmp}, Tok: token.DEFINE, Rhs: []ast.Expr{chExpr}})
		body := append([]ast.Stmt{first}, cc.Body...)
		sw.Body.List = append(sw.Body.List, &ast.CaseClause{List: []ast.Expr{&ast.BasicLit{Kind: token.INT, Value: strconv.Itoa(i)}}, Body: body})
	}
	sw.Tag = vrtCall("Select", append([]ast.Expr{ast.NewIdent("false")}, cases...)...)
	return &ast.BlockStmt{List: append(pre, sw)}
}

func (x *xf) post(c *astutil.Cursor) bool {
	switch n := c.Node().(type) {
	case *ast.CallExpr:
		// append(s, ...) that fits into the capacity of s writes the element behind s in place: two such appends
		// to slices sharing a backing array are a write-write race on that element
		if loc, ok := appendLoc[n]; ok {
			n.Args[0] = vrtCall("AppendSlot", n.Args[0], x.site(loc))
			x.needRT = true
		}
	case *ast.Ident:
		if inPlace[n] {
			// (*vrt.WP(&G, site)): the use is recorded as a write of G and still denotes G itself
			x.nW++
			x.needRT = true
			c.Replace(&ast.ParenExpr{X: &ast.StarExpr{X: vrtCall("WP", &ast.UnaryExpr{Op: token.AND, X: ast.NewIdent(n.Name)}, x.site("global "+x.pkg.Name+"."+n.Name))}})
			return true
		}
		if skip[n] {
			return true
		}
		v, ok := x.pkg.TypesInfo.Uses[n].(*types.Var)
		if !ok || !x.isShared(v) {
			return true
		}
		switch par := c.Parent().(type) {
		case *ast.SelectorExpr:
			if par.Sel == n {
				return true
			}
		case *ast.KeyValueExpr:
			if par.Key == n {
				if _, isField := x.pkg.TypesInfo.Uses[n].(*types.Var); isField && v.IsField() {
					return true
				}
			}
		}
		x.nRd++
		x.needRT = true
		c.Replace(&ast.CallExpr{Fun: &ast.SelectorExpr{X: ast.NewIdent("vrt"), Sel: ast.NewIdent("Rd")}, Args: []ast.Expr{&ast.UnaryExpr{Op: token.AND, X: ast.NewIdent(n.Name)}, x.site(x.localLoc(n))}})
		return true
	case *ast.SelectorExpr:
		// 1. re-binding of package-level identifiers
		if id, ok := n.X.(*ast.Ident); ok {
			if pn, ok := x.pkg.TypesInfo.Uses[id].(*types.PkgName); ok {
				if m, ok := rebind[pn.Imported().Path()]; ok {
					sp, ok := m[n.Sel.Name]
					if !ok {
						sp, ok = m["*"]
					}
					if ok {
						x.needShim[sp] = true
						c.Replace(&ast.SelectorExpr{X: ast.NewIdent(shimAlias[sp]), Sel: n.Sel})
						return true
					}
				}
			}
		}
		if skip[n] || !x.trackedField(n) || !x.addressable(n) {
			return true
		}
		x.nRd++
		x.needRT = true
		c.Replace(x.rdCall(n))
	case *ast.AssignStmt:
		var ws []ast.Stmt
		for _, l := range n.Lhs {
			if se := x.written(l); se != nil {
				ws = append(ws, x.wStmt(se))
			}
			ws = append(ws, x.starWrites(l)...)
			if id := x.capturedIdent(l); id != nil && n.Tok != token.DEFINE {
				ws = append(ws, x.wIdent(id))
			}
			if id := x.mapElemOf(l); id != nil {
				ws = append(ws, x.wIdent(id))
			}
		}
		if len(ws) > 0 {
			if inBlock(c) {
				for i := len(ws) - 1; i >= 0; i-- {
					c.InsertAfter(ws[i])
				}
				x.nW += len(ws)
				x.needRT = true
			} else {
				x.warn = append(x.warn, fmt.Sprintf("write not in a block at %s (not recorded)", x.pkg.Fset.Position(n.Pos())))
			}
		}
	case *ast.IncDecStmt:
		if se := x.written(n.X); se != nil && inBlock(c) {
			c.InsertAfter(x.wStmt(se))
			x.nW++
			x.needRT = true
		}
		if id := x.capturedIdent(n.X); id != nil && inBlock(c) {
			c.InsertAfter(x.wIdent(id))
			x.nW++
			x.needRT = true
		}
	case *ast.ExprStmt:
		call, ok := n.X.(*ast.CallExpr)
		if !ok {
			// plain receive statement: <-ch
			if u, ok := n.X.(*ast.UnaryExpr); ok && u.Op == token.ARROW && x.isChan(u.X) && !inComm[n] {
				x.needRT = true
				c.Replace(&ast.ExprStmt{X: vrtCall("Recv", u.X)})
			}
			return true
		}
		switch {
		case (x.builtin(call, "copy") || x.builtin(call, "delete") || x.builtin(call, "clear")) && len(call.Args) > 0:
			if se := builtinWrite[call]; se != nil && inBlock(c) {
				c.InsertAfter(x.wStmt(se))
				x.nW++
				x.needRT = true
			}
			if id, ok := delTarget[call]; ok && inBlock(c) {
				c.InsertAfter(x.wIdent(id))
				x.nW++
				x.needRT = true
			}
		case x.builtin(call, "close") && len(call.Args) == 1 && x.isChan(call.Args[0]):
			x.needRT = true
			c.Replace(&ast.ExprStmt{X: vrtCall("Close", call.Args[0])})
		}
	case *ast.SendStmt:
		if inComm[n] {
			return true
		}
		x.needRT = true
		c.Replace(&ast.ExprStmt{X: vrtCall("Send", n.Chan, n.Value)})
	case *ast.UnaryExpr:
		// receive expression in a simple context: v := <-ch / v, ok := <-ch / f(<-ch)
		if n.Op == token.ARROW && x.isChan(n.X) {
			if inComm[n] {
				return true
			}
			if as, ok := c.Parent().(*ast.AssignStmt); ok && len(as.Lhs) == 2 && len(as.Rhs) == 1 {
				x.needRT = true
				c.Replace(vrtCall("Recv2", n.X))
				return true
			}
			if _, ok := c.Parent().(*ast.ExprStmt); ok {
				return true // handled above
			}
			x.needRT = true
			c.Replace(vrtCall("Recv", n.X))
		}
	case *ast.RangeStmt:
		if rangeOverMap[n] {
			// for k, v := range m  ->  for _, k := range vrt.SortedKeys(m) { v, ok := m[k]; if !ok { continue }; ... }
			x.needRT = true
			kk := ast.NewIdent("_vk")
			var pre []ast.Stmt
			mexpr := n.X
			tok := n.Tok
			if tok == token.ILLEGAL {
				tok = token.DEFINE
			}
			if n.Key != nil && !isBlank(n.Key) {
				pre = append(pre, &ast.AssignStmt{Lhs: []ast.Expr{n.Key}, Tok: tok, Rhs: []ast.Expr{kk}})
			}
			vv := ast.Expr(ast.NewIdent("_"))
			vtok := token.ASSIGN
			if n.Value != nil && !isBlank(n.Value) {
				vv = n.Value
				vtok = tok
			}
			okID := ast.NewIdent("_vmok")
			if vtok == token.ASSIGN {
				pre = append(pre, &ast.DeclStmt{Decl: &ast.GenDecl{Tok: token.VAR, Specs: []ast.Spec{&ast.ValueSpec{Names: []*ast.Ident{okID}, Type: ast.NewIdent("bool")}}}})
				pre = append(pre, &ast.AssignStmt{Lhs: []ast.Expr{vv, okID}, Tok: token.ASSIGN, Rhs: []ast.Expr{&ast.IndexExpr{X: mexpr, Index: kk}}})
			} else {
				pre = append(pre, &ast.AssignStmt{Lhs: []ast.Expr{vv, okID}, Tok: token.DEFINE, Rhs: []ast.Expr{&ast.IndexExpr{X: mexpr, Index: kk}}})
			}
			pre = append(pre, &ast.IfStmt{Cond: &ast.UnaryExpr{Op: token.NOT, X: okID}, Body: &ast.BlockStmt{List: []ast.Stmt{&ast.BranchStmt{Tok: token.CONTINUE}}}})
			body := &ast.BlockStmt{List: append(pre, n.Body.List...)}
			c.Replace(&ast.RangeStmt{Key: ast.NewIdent("_"), Value: kk, Tok: token.DEFINE, X: vrtCall("SortedKeys", mexpr), Body: body})
			return true
		}
		if rangeOverChan[n] {
			// for v := range ch  ->  for { v, ok := vrt.Recv2(ch); if !ok { break }; ... }
			x.needRT = true
			okID := ast.NewIdent("_vok")
			var lhs []ast.Expr
			if n.Key != nil {
				lhs = []ast.Expr{n.Key, okID}
			} else {
				lhs = []ast.Expr{ast.NewIdent("_"), okID}
			}
			tok := token.DEFINE
			recv := &ast.AssignStmt{Lhs: lhs, Tok: tok, Rhs: []ast.Expr{vrtCall("Recv2", n.X)}}
			brk := &ast.IfStmt{Cond: &ast.UnaryExpr{Op: token.NOT, X: okID}, Body: &ast.BlockStmt{List: []ast.Stmt{&ast.BranchStmt{Tok: token.BREAK}}}}
			body := &ast.BlockStmt{List: append([]ast.Stmt{recv, brk}, n.Body.List...)}
			c.Replace(&ast.ForStmt{Body: body})
		}
	case *ast.SelectStmt:
		// a select that can block natively is preceded by a scheduling point; selects with a default never block
		hasDefault := false
		for _, cl := range n.Body.List {
			cc, ok := cl.(*ast.CommClause)
			if !ok {
				continue
			}
			if cc.Comm == nil {
				hasDefault = true
				continue
			}
			// happens-before edges of the native communication: release before a possible send, acquire in a receive case
			switch cm := cc.Comm.(type) {
			case *ast.SendStmt:
				if _, isCall := cm.Chan.(*ast.CallExpr); !isCall && inBlock(c) {
					x.needRT = true
					c.InsertBefore(&ast.ExprStmt{X: vrtCall("ChanRelease", cm.Chan)})
				}
			case *ast.ExprStmt:
				if u, ok := cm.X.(*ast.UnaryExpr); ok && u.Op == token.ARROW {
					if _, isCall := u.X.(*ast.CallExpr); !isCall {
						x.needRT = true
						cc.Body = append([]ast.Stmt{&ast.ExprStmt{X: vrtCall("ChanAcquire", u.X)}}, cc.Body...)
					}
				}
			case *ast.AssignStmt:
				if len(cm.Rhs) == 1 {
					if u, ok := cm.Rhs[0].(*ast.UnaryExpr); ok && u.Op == token.ARROW {
						if _, isCall := u.X.(*ast.CallExpr); !isCall {
							x.needRT = true
							cc.Body = append([]ast.Stmt{&ast.ExprStmt{X: vrtCall("ChanAcquire", u.X)}}, cc.Body...)
						}
					}
				}
			}
		}
		if !hasDefault {
			_, labelled := c.Parent().(*ast.LabeledStmt)
			if repl := x.blockingSelect(n); repl != nil && !labelled {
				x.needRT = true
				c.Replace(repl)
			} else if inBlock(c) {
				x.needRT = true
				c.InsertBefore(&ast.ExprStmt{X: vrtCall("Point", &ast.BasicLit{Kind: token.STRING, Value: `"select"`}, ast.NewIdent("nil"))})
				x.warn = append(x.warn, fmt.Sprintf("blocking select at %s is not modelled (may end as inconclusive)", x.pkg.Fset.Position(n.Pos())))
			}
		}
	case *ast.GoStmt:
		x.needRT = true
		call := n.Call
		if fl, ok := call.Fun.(*ast.FuncLit); ok && len(call.Args) == 0 {
			c.Replace(&ast.ExprStmt{X: vrtCall("Go", fl)})
		} else {
			var lhs, rhs []ast.Expr
			fn := ast.NewIdent("_vgo_f")
			lhs = append(lhs, fn)
			rhs = append(rhs, call.Fun)
			var args []ast.Expr
			for i, a := range call.Args {
				id := ast.NewIdent(fmt.Sprintf("_vgo_a%d", i))
				lhs = append(lhs, id)
				rhs = append(rhs, a)
				args = append(args, id)
			}
			inner := &ast.CallExpr{Fun: fn, Args: args, Ellipsis: call.Ellipsis}
			blk := &ast.BlockStmt{List: []ast.Stmt{
				&ast.AssignStmt{Lhs: lhs, Tok: token.DEFINE, Rhs: rhs},
				&ast.ExprStmt{X: vrtCall("Go", &ast.FuncLit{Type: &ast.FuncType{Params: &ast.FieldList{}}, Body: &ast.BlockStmt{List: []ast.Stmt{&ast.ExprStmt{X: inner}}}})},
			}}
			c.Replace(blk)
		}
	}
	return true
}
