// vxform spike: typed source transformer.
package main

import (
	"bytes"
	"fmt"
	"go/ast"
	"go/format"
	"go/token"
	"go/types"
	"os"
	"path/filepath"
	"strconv"
	"strings"

	"golang.org/x/tools/go/ast/astutil"
	"golang.org/x/tools/go/packages"
)

var importMap = map[string]string{
	"sync":       "verif/shim/vsync",
	"net":        "verif/shim/vnet",
	"crypto/tls": "verif/shim/vtls",
	"context":    "verif/shim/vctx",
	"time":       "verif/shim/vtime",
	"bufio":      "verif/shim/vbufio",
	"github.com/jimlambrt/gldap": "verif/gldapx2",
}

const rtPath = "verif/rt"

var ownPkgs = map[string]bool{
	"github.com/jimlambrt/gldap":               true,
	"github.com/jimlambrt/gldap/testdirectory": true,
}

type xf struct {
	pkg     *packages.Package
	nRd, nW int
	needRT  bool
}

func main() {
	src, out := os.Args[1], os.Args[2]
	cfg := &packages.Config{Mode: packages.NeedName | packages.NeedFiles | packages.NeedCompiledGoFiles | packages.NeedSyntax | packages.NeedTypes | packages.NeedTypesInfo | packages.NeedImports | packages.NeedDeps, Dir: src}
	pkgs, err := packages.Load(cfg, ".", "./testdirectory")
	if err != nil {
		panic(err)
	}
	for _, p := range pkgs {
		if len(p.Errors) > 0 {
			fmt.Println("load errors", p.Errors)
			os.Exit(2)
		}
		x := &xf{pkg: p}
		for i, f := range p.Syntax {
			name := p.CompiledGoFiles[i]
			x.needRT = false
			x.file(f)
			rel, _ := filepath.Rel(src, name)
			dst := filepath.Join(out, rel)
			os.MkdirAll(filepath.Dir(dst), 0o755)
			var buf bytes.Buffer
			if err := format.Node(&buf, p.Fset, f); err != nil {
				panic(fmt.Sprintf("%s: %v", name, err))
			}
			if err := os.WriteFile(dst, buf.Bytes(), 0o644); err != nil {
				panic(err)
			}
		}
		fmt.Printf("%s: files=%d reads=%d writes=%d\n", p.PkgPath, len(p.Syntax), x.nRd, x.nW)
	}
}

func (x *xf) file(f *ast.File) {
	fset := x.pkg.Fset
	// 1. instrumentation + go statements
	astutil.Apply(f, x.pre, x.post)
	// 2. imports
	for _, imp := range f.Imports {
		p, _ := strconv.Unquote(imp.Path.Value)
		if np, ok := importMap[p]; ok {
			if imp.Name == nil {
				base := p[strings.LastIndex(p, "/")+1:]
				imp.Name = ast.NewIdent(base)
			}
			imp.Path.Value = strconv.Quote(np)
		}
	}
	if x.needRT {
		astutil.AddNamedImport(fset, f, "vrt", rtPath)
	}
}

func isShimType(t types.Type) bool {
	for {
		switch tt := t.(type) {
		case *types.Pointer:
			t = tt.Elem()
			continue
		case *types.Named:
			if tt.Obj().Pkg() != nil {
				p := tt.Obj().Pkg().Path()
				if p == "sync" || p == "sync/atomic" {
					return true
				}
			}
		}
		return false
	}
}

// trackedField reports whether sel selects a field of a struct declared in our packages, reached through a pointer.
func (x *xf) trackedField(se *ast.SelectorExpr) bool {
	sel, ok := x.pkg.TypesInfo.Selections[se]
	if !ok || sel.Kind() != types.FieldVal {
		return false
	}
	v := sel.Obj().(*types.Var)
	if v.Pkg() == nil || !ownPkgs[v.Pkg().Path()] {
		return false
	}
	if isShimType(v.Type()) {
		return false
	}
	// reached through a pointer somewhere on the path?
	if sel.Indirect() {
		return true
	}
	if _, ok := x.pkg.TypesInfo.TypeOf(se.X).Underlying().(*types.Pointer); ok {
		return true
	}
	// x.a.b where x.a is itself tracked (struct value inside pointer-reached struct)
	if inner, ok := se.X.(*ast.SelectorExpr); ok {
		return x.trackedField(inner)
	}
	return false
}

func (x *xf) addressable(e ast.Expr) bool {
	tv, ok := x.pkg.TypesInfo.Types[e]
	return ok && tv.Addressable()
}

func rdCall(e ast.Expr) ast.Expr {
	return &ast.CallExpr{Fun: &ast.SelectorExpr{X: ast.NewIdent("vrt"), Sel: ast.NewIdent("Rd")}, Args: []ast.Expr{&ast.UnaryExpr{Op: token.AND, X: e}}}
}
func wStmt(e ast.Expr) ast.Stmt {
	return &ast.ExprStmt{X: &ast.CallExpr{Fun: &ast.SelectorExpr{X: ast.NewIdent("vrt"), Sel: ast.NewIdent("W")}, Args: []ast.Expr{&ast.UnaryExpr{Op: token.AND, X: e}}}}
}

// written returns the tracked field selector that expression e (an assignment target) writes, if any.
func (x *xf) written(e ast.Expr) *ast.SelectorExpr {
	for {
		switch t := e.(type) {
		case *ast.ParenExpr:
			e = t.X
		case *ast.IndexExpr: // x.f[i] = v : contents write attributed to field
			e = t.X
		case *ast.SelectorExpr:
			if x.trackedField(t) {
				return t
			}
			return nil
		default:
			return nil
		}
	}
}

var skip = map[ast.Node]bool{}

func (x *xf) pre(c *astutil.Cursor) bool {
	switch n := c.Node().(type) {
	case *ast.AssignStmt:
		for _, l := range n.Lhs {
			if se := x.written(l); se != nil {
				markSkip(l)
			}
		}
	case *ast.IncDecStmt:
		if se := x.written(n.X); se != nil {
			markSkip(n.X)
		}
	case *ast.UnaryExpr:
		if n.Op == token.AND {
			markSkip(n.X)
		}
	case *ast.SelectorExpr:
		// do not wrap struct-valued intermediates: x.a.b -> keep x.a raw when it is a struct value
		if inner, ok := n.X.(*ast.SelectorExpr); ok {
			if t := x.pkg.TypesInfo.TypeOf(inner); t != nil {
				if _, isPtr := t.Underlying().(*types.Pointer); !isPtr {
					if _, isIface := t.Underlying().(*types.Interface); !isIface {
						skip[inner] = true
					}
				}
			}
		}
	}
	return true
}

func markSkip(e ast.Expr) {
	for {
		skip[e] = true
		switch t := e.(type) {
		case *ast.ParenExpr:
			e = t.X
		case *ast.IndexExpr:
			e = t.X
		default:
			return
		}
	}
}

func (x *xf) post(c *astutil.Cursor) bool {
	switch n := c.Node().(type) {
	case *ast.SelectorExpr:
		if skip[n] || !x.trackedField(n) || !x.addressable(n) {
			return true
		}
		// method value / call on field is fine: Rd returns the value
		x.nRd++
		x.needRT = true
		c.Replace(rdCall(n))
	case *ast.AssignStmt:
		var ws []ast.Stmt
		for _, l := range n.Lhs {
			if se := x.written(l); se != nil {
				ws = append(ws, wStmt(se))
			}
		}
		if len(ws) > 0 {
			if _, ok := c.Parent().(*ast.BlockStmt); ok || isCaseBody(c) {
				for i := len(ws) - 1; i >= 0; i-- {
					c.InsertAfter(ws[i])
				}
				x.nW += len(ws)
				x.needRT = true
			} else {
				fmt.Printf("  WARN: write not in block at %s\n", x.pkg.Fset.Position(n.Pos()))
			}
		}
	case *ast.IncDecStmt:
		if se := x.written(n.X); se != nil {
			c.InsertAfter(wStmt(se))
			x.nW++
			x.needRT = true
		}
	case *ast.GoStmt:
		x.needRT = true
		call := n.Call
		if fl, ok := call.Fun.(*ast.FuncLit); ok && len(call.Args) == 0 {
			c.Replace(&ast.ExprStmt{X: &ast.CallExpr{Fun: &ast.SelectorExpr{X: ast.NewIdent("vrt"), Sel: ast.NewIdent("Go")}, Args: []ast.Expr{fl}}})
		} else {
			// general form: evaluate fun and args now
			var lhs, rhs []ast.Expr
			fn := ast.NewIdent("_vgo_f")
			lhs = append(lhs, fn)
			rhs = append(rhs, call.Fun)
			var args []ast.Expr
			for i, a := range call.Args {
				id := ast.NewIdent(fmt.Sprintf("_vgo_a%d", i))
				lhs = append(lhs, id)
				rhs = append(rhs, a)
				args = append(args, id)
			}
			inner := &ast.CallExpr{Fun: fn, Args: args, Ellipsis: call.Ellipsis}
			blk := &ast.BlockStmt{List: []ast.Stmt{
				&ast.AssignStmt{Lhs: lhs, Tok: token.DEFINE, Rhs: rhs},
				&ast.ExprStmt{X: &ast.CallExpr{Fun: &ast.SelectorExpr{X: ast.NewIdent("vrt"), Sel: ast.NewIdent("Go")}, Args: []ast.Expr{&ast.FuncLit{Type: &ast.FuncType{Params: &ast.FieldList{}}, Body: &ast.BlockStmt{List: []ast.Stmt{&ast.ExprStmt{X: inner}}}}}}},
			}}
			c.Replace(blk)
		}
	}
	return true
}

func isCaseBody(c *astutil.Cursor) bool {
	switch c.Parent().(type) {
	case *ast.CaseClause, *ast.CommClause:
		return true
	}
	return false
}
