package vrt

import "reflect"

// chanPtr returns the channel's identity independent of its direction.
func chanPtr(ch interface{}) uintptr { return reflect.ValueOf(ch).Pointer() }
