package vrt

import (
	"fmt"
	"os"
	"runtime"
	"time"
)

// Explorer: iterative deviation-bounded (delay-bounded) depth-first exploration of all schedules of Body.
// run(prefix) replays the prefix and then takes choice 0 (keep running the current thread, else lowest id)
// at every later choice point; every alternative at every later point whose cost fits the bound is explored.
type Explorer struct {
	Body     func()
	Bound    int  // max preemptions; <0 = unbounded
	Prune    bool // happens-before fingerprint pruning
	MaxPts   int  // horizon per execution
	Deadline time.Time
	MaxExecs int
	OnExec   func(x *Sched, choices []int) // called for every complete (non-pruned) execution
	Pre      func(x *Sched)

	Execs, Steps, Pruned, States, Horizons int
	CapHit                                 bool
	seen                                   map[uint64]int
	sinceGC                                int
	lastTrace                              []Step
}

// preemptionsBefore counts the deviations among the first i choices. A deviation is any choice other than the
// default one (keep running the current thread if it is still enabled, else the enabled thread with the lowest
// id): delay bounding. Preemptions are deviations; so is picking another thread than the default one when the
// running thread blocks, which keeps bound 0 at a single execution whatever the number of threads.
func preemptionsBefore(tr []Step, i int) int {
	c := 0
	for _, st := range tr[:i] {
		if st.Chosen > 0 {
			c++
		}
	}
	return c
}

// Choices extracts the full choice list of an execution (a replay prefix).
func Choices(tr []Step) []int {
	out := make([]int, len(tr))
	for i, s := range tr {
		out[i] = s.Chosen
	}
	return out
}

func (e *Explorer) runOne(prefix []int) *Sched {
	x := Run(prefix, e.Body, func(s *Sched) {
		if e.MaxPts > 0 {
			s.MaxPts = e.MaxPts
		}
		if e.Prune {
			if e.seen == nil {
				e.seen = map[uint64]int{}
			}
			s.Seen = e.seen
			s.Budget = func(k int) int {
				if e.Bound < 0 {
					return 0
				}
				return e.Bound - preemptionsBefore(s.Trace, k)
			}
		}
		if e.Pre != nil {
			e.Pre(s)
		}
	})
	e.Execs++
	e.Steps += x.Points
	e.States += x.States
	if x.Pruned {
		e.Pruned++
	}
	if x.Horizon {
		e.Horizons++
	}
	e.sinceGC++
	if e.sinceGC >= 2000 {
		e.sinceGC = 0
		runtime.GC()
	}
	return x
}

func (e *Explorer) capped() bool {
	if e.CapHit {
		return true
	}
	if (e.MaxExecs > 0 && e.Execs >= e.MaxExecs) || (!e.Deadline.IsZero() && time.Now().After(e.Deadline)) {
		e.CapHit = true
	}
	return e.CapHit
}

// children returns the alternative prefixes that branch off execution x after position from.
func (e *Explorer) children(x *Sched, from int) [][]int {
	var out [][]int
	tr := x.Trace
	for i := from; i < len(tr); i++ {
		cost := preemptionsBefore(tr, i) + 1
		if e.Bound >= 0 && cost > e.Bound {
			continue
		}
		for alt := 1; alt < tr[i].N; alt++ {
			np := make([]int, i+1)
			for j := 0; j < i; j++ {
				np[j] = tr[j].Chosen
			}
			np[i] = alt
			out = append(out, np)
		}
	}
	return out
}

// Explore explores the subtree below prefix completely (within the bound).
func (e *Explorer) Explore(prefix []int) {
	stack := [][]int{prefix}
	for len(stack) > 0 {
		if e.capped() {
			return
		}
		p := stack[len(stack)-1]
		stack = stack[:len(stack)-1]
		x := e.runOne(p)
		if x.Diverged != "" {
			if DebugNames && e.lastTrace != nil && os.Getenv("VERIF_DEBUG") == "full" {
				for i := 0; i < len(e.lastTrace) && i < len(p)+2; i++ {
					fmt.Fprintf(os.Stderr, "P %d: %v chosen=%d\n", i, e.lastTrace[i].Names, e.lastTrace[i].Chosen)
				}
				for i := 0; i < len(x.Trace); i++ {
					fmt.Fprintf(os.Stderr, "R %d: %v chosen=%d\n", i, x.Trace[i].Names, x.Trace[i].Chosen)
				}
			}
			if DebugNames && e.lastTrace != nil {
				k := len(p) - 1
				for i := k - 3; i <= k && i < len(e.lastTrace); i++ {
					if i >= 0 {
						fmt.Fprintf(os.Stderr, "parent step %d: %v chosen=%d clock=%v\n", i, e.lastTrace[i].Names, e.lastTrace[i].Chosen, e.lastTrace[i].Clock)
					}
				}
			}
			panic("vrt: " + x.Diverged)
		}
		e.lastTrace = x.Trace
		if !x.Pruned && e.OnExec != nil {
			e.OnExec(x, Choices(x.Trace))
		}
		ch := e.children(x, len(p))
		// push in reverse so that earlier branch points are explored first (DFS order of the recursive formulation)
		for i := len(ch) - 1; i >= 0; i-- {
			stack = append(stack, ch[i])
		}
	}
}

// Expand runs breadth-first from the root until at least want pending prefixes exist (or the tree is exhausted)
// and returns them; executions run on the way are reported through OnExec. Used to shard the tree over processes.
func (e *Explorer) Expand(want int) [][]int {
	pending := [][]int{nil}
	for len(pending) > 0 && len(pending) < want {
		if e.capped() {
			break
		}
		p := pending[0]
		pending = pending[1:]
		x := e.runOne(p)
		if x.Diverged != "" {
			panic("vrt: " + x.Diverged)
		}
		if !x.Pruned && e.OnExec != nil {
			e.OnExec(x, Choices(x.Trace))
		}
		pending = append(pending, e.children(x, len(p))...)
	}
	return pending
}
