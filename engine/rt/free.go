package vrt

import (
	"fmt"
	"sync"
	"time"
)

// Free-running mode: the same harness code runs with real goroutines on the real stack (no scheduler).
// Harness state is protected by one mutex (Atomic); gates poll.

var freeMu sync.Mutex
var freeOn bool
var freeData interface{}
var freeLog []string
var freeWG sync.WaitGroup

// StartFree switches to free-running mode with fresh harness state.
func StartFree(data interface{}) {
	freeMu.Lock()
	freeOn, freeData, freeLog = true, data, nil
	freeMu.Unlock()
}

// Free reports whether free-running mode is on.
func Free() bool { return freeOn && Current() == nil }

// FreeData returns the harness state of the free-running execution.
func FreeData() interface{} { return freeData }

// FreeLog returns the observation log of the free-running execution.
func FreeLog() []string {
	freeMu.Lock()
	defer freeMu.Unlock()
	return append([]string(nil), freeLog...)
}

// FreeWait waits for all goroutines started through Go/GoNamed in free mode (with a ceiling).
func FreeWait(max time.Duration) bool {
	done := make(chan struct{})
	go func() { freeWG.Wait(); close(done) }()
	select {
	case <-done:
		return true
	case <-time.After(max):
		return false
	}
}

// Atomic runs f as one step of the harness: under the scheduler code between two points is atomic anyway;
// in free-running mode the harness mutex is held.
func Atomic(f func()) {
	if Free() {
		freeMu.Lock()
		defer freeMu.Unlock()
	}
	f()
}

func freeGo(f func()) {
	freeWG.Add(1)
	go func() {
		defer freeWG.Done()
		f()
	}()
}

func freeWaitUntil(pred func() bool) {
	deadline := time.Now().Add(60 * time.Second)
	for {
		freeMu.Lock()
		ok := pred()
		freeMu.Unlock()
		if ok {
			return
		}
		if time.Now().After(deadline) {
			panic("vrt: free-running gate did not open within 60 s")
		}
		time.Sleep(200 * time.Microsecond)
	}
}

func freeLogf(format string, a ...interface{}) {
	freeMu.Lock()
	freeLog = append(freeLog, fmt.Sprintf(format, a...))
	freeMu.Unlock()
}
