package vrt

import (
	"cmp"
	"sort"
)

// PermuteMaps: iteration order over a map is an environment choice (see SortedKeys). Scenarios whose property
// cannot depend on it switch it off to keep their schedule space small.
var PermuteMaps = true

// SortedKeys returns the keys of m in the order in which a `range` over m visits them in this execution. The
// transformer rewrites `range` over maps with ordered keys to iterate over this slice: Go's randomised map
// iteration is nondeterminism the scheduler has to own. The default order is ascending; every other order
// (all permutations up to 4 keys, all rotations of the ascending order beyond that) is an alternative answer
// of a choice point, so a property that only breaks for some iteration order is still found within the bound.
func SortedKeys[M ~map[K]V, K cmp.Ordered, V any](m M) []K {
	keys := make([]K, 0, len(m))
	for k := range m {
		keys = append(keys, k)
	}
	sort.Slice(keys, func(i, j int) bool { return keys[i] < keys[j] })
	n := len(keys)
	if n < 2 || !PermuteMaps {
		return keys
	}
	if n <= 4 {
		f := 1
		for i := 2; i <= n; i++ {
			f *= i
		}
		c := Choose("map-order", f)
		// c-th permutation in lexicographic order (factorial number system)
		rest := append([]K(nil), keys...)
		out := make([]K, 0, n)
		for i := n; i >= 1; i-- {
			f /= i
			j := c / f
			c %= f
			out = append(out, rest[j])
			rest = append(rest[:j], rest[j+1:]...)
		}
		return out
	}
	c := Choose("map-order", n)
	return append(append([]K(nil), keys[c:]...), keys[:c]...)
}
