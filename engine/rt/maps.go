package vrt

import (
	"cmp"
	"sort"
)

// SortedKeys returns the keys of m in ascending order. The transformer rewrites `range` over maps with
// ordered keys to iterate in this order: Go's randomised map iteration is a source of nondeterminism the
// scheduler cannot replay.
func SortedKeys[M ~map[K]V, K cmp.Ordered, V any](m M) []K {
	keys := make([]K, 0, len(m))
	for k := range m {
		keys = append(keys, k)
	}
	sort.Slice(keys, func(i, j int) bool { return keys[i] < keys[j] })
	return keys
}
