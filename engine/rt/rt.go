// Package vrt is the controlled cooperative scheduler under which the transformed gldap code runs.
//
// Every goroutine of the closed system is a "thread": a real goroutine that runs only while it holds the
// scheduler's token. Before each hooked operation (Point) the thread publishes the operation and parks;
// the scheduler picks one enabled thread. A recorded list of choices replays an execution exactly.
package vrt

import (
	"fmt"
	"os"
	"runtime"
	"sort"
	"strings"
	"sync"
	"sync/atomic"
	"time"
	"unsafe"
)

type thread struct {
	id      int
	cid     uint64 // canonical id: (parent cid, spawn index)
	name    string
	nspawn  int
	vc      []uint32 // vector clock
	h       uint64   // hash chain (program position + what it has seen)
	wake    chan struct{}
	enabled func() bool      // nil = always
	wakeAt  func() time.Time // earliest virtual time at which enabled may turn true by itself (zero = never)
	opName  string
	done    bool
	parked  bool
	started bool
	// skipPoint: the thread has just been granted one alternative of a select; the point of the operation it
	// performs next belongs to the same atomic step and does not yield
	skipPoint bool
}

// Step is one real choice point (more than one enabled thread).
type Step struct {
	N          int  // number of enabled threads
	Chosen     int  // index in the canonical enabled list (running thread first if still enabled, then ascending id)
	CurEnabled bool // the running thread was still enabled: choosing another one is a preemption
	Names      []string
	Clock      time.Duration
}

// DebugNames records the enabled threads at every choice (diagnostics).
var DebugNames = os.Getenv("VERIF_DEBUG") != ""

type Crash struct {
	Thread string
	Value  string
	Site   string // innermost non-runtime frame
}

type Race struct {
	Loc   string
	A, B  string // "func (r|w)"
	Count int
}

type Sched struct {
	threads   []*thread
	cur       *thread
	prefix    []int
	Trace     []Step
	finished  chan struct{}
	Deadlock  bool
	Blocked   []string
	Crash     *Crash
	Horizon   bool
	Ambiguous string // set when a terminal state cannot be judged (see Select)
	RaceAbort bool
	MaxPts    int
	teardown  bool
	Points    int
	Log       []string
	Races     map[string]*Race
	shadow    map[unsafe.Pointer]*shadowCell // keyed by pointer: the object stays alive, its address cannot be reused within the execution
	objs      []*Obj
	logObj    *Obj
	clockObj  *Obj
	clock     time.Duration
	Data      interface{} // per-execution harness state
	chans     map[interface{}]*chanState
	// pruning
	Seen     map[uint64]int
	Budget   func(k int) int
	Pruned   bool
	States   int
	Diverged string
	tdByExit bool // teardown was started by a thread that was already exiting
	tmu      sync.Mutex
	finOnce  sync.Once
}

var cur atomic.Pointer[Sched]

// Current returns the scheduler of the execution in progress (nil outside one).
func Current() *Sched { return cur.Load() }

// processBase is the virtual time of clock 0. It lies ten years before the start of the process: code that is
// not transformed (crypto/tls) takes deadlines from the wall clock ("now + 5s" around a close_notify, "now"
// after it); measured on the virtual clock those must not depend on how long the process has been running, so
// they all lie in the far future: a deadline taken from the wall clock expires only when nothing else can
// happen any more, which is what "a few real seconds" means to a model without wall-clock time.
var processBase = time.Now().Add(-10 * 365 * 24 * time.Hour)

// LastActivity is read by the watchdog.
var LastActivity atomic.Int64

// Run executes body as thread 0 under a fresh scheduler replaying prefix, then default choices.
func Run(prefix []int, body func(), pre func(*Sched)) *Sched {
	s := &Sched{prefix: prefix, finished: make(chan struct{}), Races: map[string]*Race{}, shadow: map[unsafe.Pointer]*shadowCell{}, MaxPts: 200000}
	if pre != nil {
		pre(s)
	}
	resetGlobals()
	cur.Store(s)
	t := s.newThread("main")
	t.cid = 1
	t.vc = []uint32{1}
	t.started = true
	s.logObj = &Obj{}
	s.clockObj = &Obj{}
	s.cur = t
	LastActivity.Store(time.Now().UnixNano())
	go s.threadMain(t, body)
	<-s.finished
	cur.Store(nil)
	return s
}

func (s *Sched) newThread(name string) *thread {
	t := &thread{id: len(s.threads), name: name, wake: make(chan struct{}, 1)}
	s.threads = append(s.threads, t)
	return t
}

type abortT struct{}

func (s *Sched) threadMain(t *thread, body func()) {
	defer func() {
		if r := recover(); r != nil {
			if _, ok := r.(abortT); !ok && s.Crash == nil && !s.teardown {
				s.Crash = &Crash{Thread: t.name, Value: fmt.Sprint(r), Site: panicSite()}
			}
		}
		s.tmu.Lock()
		t.done = true
		s.tmu.Unlock()
		if s.teardown {
			s.teardownNext()
			return
		}
		if s.Crash != nil {
			s.startTeardown()
			s.teardownNext()
			return
		}
		s.schedule(t, true)
		if s.tdByExit {
			s.tdByExit = false
			s.teardownNext()
		}
	}()
	if t.id != 0 {
		<-t.wake // wait to be scheduled the first time
		if s.teardown {
			return
		}
	}
	t.started = true
	body()
}

func panicSite() string { return panicSiteSkip(4) }

func panicSiteSkip(skip int) string {
	pcs := make([]uintptr, 64)
	n := runtime.Callers(skip, pcs)
	frames := runtime.CallersFrames(pcs[:n])
	for {
		fr, more := frames.Next()
		if fr.Function != "" && !strings.HasPrefix(fr.Function, "runtime.") && !strings.HasPrefix(fr.Function, "verif/rt.") && !strings.HasPrefix(fr.Function, "verif/shim/") {
			fn := fr.Function
			if i := strings.Index(fn, ".func"); i > 0 {
				fn = fn[:i]
			}
			return fn
		}
		if !more {
			return "?"
		}
	}
}

// Go spawns a new controlled thread.
func Go(f func()) { GoNamed("", f) }

func GoNamed(name string, f func()) {
	s := Current()
	if s == nil {
		if Free() {
			freeGo(f)
			return
		}
		go f()
		return
	}
	if s.teardown {
		return
	}
	p := s.cur
	p.nspawn++
	if name == "" {
		name = fmt.Sprintf("%s.%d", p.name, p.nspawn)
	}
	t := s.newThread(name)
	t.cid = mix(p.cid, uint64(p.nspawn)+0x9e37)
	t.vc = make([]uint32, len(s.threads))
	copy(t.vc, p.vc)
	t.vc[t.id] = 1
	p.tick()
	t.parked = true
	t.opName = "start"
	go s.threadMain(t, f)
	Point("go", nil) // spawning is a point: the child may run first
}

// Point is a scheduling point. enabled==nil means always enabled.
func Point(name string, enabled func() bool) { PointTimed(name, enabled, nil) }

// PointTimed is a point whose enabledness may also change by the passing of virtual time: wakeAt returns
// the earliest time at which it may (zero = never). The clock only advances when no thread is enabled.
func PointTimed(name string, enabled func() bool, wakeAt func() time.Time) {
	s := Current()
	if s == nil {
		return
	}
	if s.teardown {
		runtime.Goexit()
	}
	t := s.cur
	if t.skipPoint {
		t.skipPoint = false
		if enabled == nil || enabled() {
			t.h = mix(t.h, strHash(name))
			return
		}
	}
	t.enabled = enabled
	t.wakeAt = wakeAt
	t.opName = name
	s.Points++
	if s.Points > s.MaxPts {
		s.Horizon = true
		s.startTeardown()
		runtime.Goexit()
	}
	s.schedule(t, false)
	if s.teardown {
		runtime.Goexit()
	}
	t.enabled, t.wakeAt = nil, nil
	t.h = mix(t.h, strHash(name)) // the pending operation is about to execute: the thread's position changed
}

// Choose is an environment choice point with n alternatives that the explorer enumerates like a scheduling
// choice: answer 0 is the default, any other answer is a deviation (it costs one unit of the bound).
func Choose(name string, n int) int {
	s := Current()
	if s == nil || n <= 1 || s.teardown || Free() {
		return 0
	}
	k := len(s.Trace)
	idx := 0
	if k < len(s.prefix) {
		idx = s.prefix[k]
		if idx >= n {
			s.Diverged = fmt.Sprintf("replay divergence at choice %d (%s): answer %d of %d; log=%v", k, name, idx, n, s.Log)
			s.startTeardown()
			runtime.Goexit()
		}
	}
	st := Step{N: n, Chosen: idx, CurEnabled: true}
	if DebugNames {
		st.Names = []string{"choose:" + name}
		st.Clock = s.clock
	}
	s.Trace = append(s.Trace, st)
	s.cur.h = mix(s.cur.h, strHash(name)+uint64(idx)*0x9e3779b97f4a7c15)
	return idx
}

// WaitUntil parks the calling thread until pred holds (a harness gate).
func WaitUntil(name string, pred func() bool) {
	if Free() {
		freeWaitUntil(pred)
		return
	}
	Point("gate:"+name, pred)
}

// Yield is a plain scheduling point.
func Yield() { Point("yield", nil) }

func strHash(s string) uint64 {
	var h uint64 = 14695981039346656037
	for i := 0; i < len(s); i++ {
		h ^= uint64(s[i])
		h *= 1099511628211
	}
	return h
}

func (s *Sched) isEnabled(t *thread) bool {
	if t.done {
		return false
	}
	return t.enabled == nil || t.enabled()
}

// schedule picks the next thread. self is the calling thread (parks unless chosen).
func (s *Sched) schedule(self *thread, exiting bool) {
	LastActivity.Store(time.Now().UnixNano())
	var en []*thread
	curEnabled := false
	for {
		en = en[:0]
		curEnabled = false
		if !exiting && s.isEnabled(self) {
			en = append(en, self)
			curEnabled = true
		}
		for _, t := range s.threads {
			if t != self && s.isEnabled(t) {
				en = append(en, t)
			}
		}
		if len(en) > 0 {
			break
		}
		// nobody enabled: let virtual time pass to the earliest timed waiter
		var next time.Time
		for _, t := range s.threads {
			if t.done || t.wakeAt == nil || (t == self && exiting) {
				continue
			}
			if w := t.wakeAt(); !w.IsZero() && (next.IsZero() || w.Before(next)) {
				next = w
			}
		}
		if !next.IsZero() && next.After(s.now()) {
			s.clock = next.Sub(processBase)
			s.clockObj.touchBy(self, uint64(s.clock))
			continue
		}
		alive := false
		for _, t := range s.threads {
			if !t.done && !(t == self && exiting) {
				alive = true
				s.Blocked = append(s.Blocked, t.name+"@"+t.opName)
			}
		}
		if alive {
			sort.Strings(s.Blocked)
			for _, st := range s.chans {
				if st.selSend > 0 && st.selRecv > 0 {
					// two selects could have met on this unbuffered channel; the model does not pair them
					s.Ambiguous = "a send case and a receive case of two blocked selects name the same unbuffered channel"
					s.Horizon = true // no verdict on this execution
				}
			}
			s.Deadlock = true
			s.startTeardown()
			if !exiting {
				runtime.Goexit()
			}
			s.tdByExit = true
			return
		}
		s.finOnce.Do(func() { close(s.finished) })
		return
	}
	idx := 0
	if len(en) > 1 {
		k := len(s.Trace)
		if k >= len(s.prefix) && s.Seen != nil && s.Budget != nil && !exiting {
			fp := s.fingerprint(self)
			b := s.Budget(k)
			if ob, ok := s.Seen[fp]; ok && ob >= b {
				s.Pruned = true
				s.startTeardown()
				runtime.Goexit()
			}
			if _, ok := s.Seen[fp]; !ok {
				s.States++
			}
			s.Seen[fp] = b
		}
		if k < len(s.prefix) {
			idx = s.prefix[k]
			if idx >= len(en) {
				var names []string
				for _, t := range en {
					names = append(names, t.name+"@"+t.opName)
				}
				s.Diverged = fmt.Sprintf("replay divergence at choice %d: choice %d of %d enabled %v; clock=%v log=%v", k, idx, len(en), names, s.clock, s.Log)
				s.startTeardown()
				if !exiting {
					runtime.Goexit()
				}
				s.tdByExit = true
				return
			}
		}
		st := Step{N: len(en), Chosen: idx, CurEnabled: curEnabled}
		if DebugNames {
			for _, t := range en {
				st.Names = append(st.Names, t.name+"@"+t.opName)
			}
			st.Clock = s.clock
		}
		s.Trace = append(s.Trace, st)
	}
	next := en[idx]
	if next == self {
		return
	}
	s.cur = next
	self.parked = true
	next.parked = false
	next.wake <- struct{}{}
	if exiting {
		return
	}
	<-self.wake
}

// startTeardown only raises the flag: the calling thread must then leave through Goexit (its own unwinding
// completes before threadMain's deferred function wakes the next thread), so that the deferred functions of
// different threads never run concurrently.
func (s *Sched) startTeardown() {
	s.teardown = true
}

// teardownNext wakes parked threads one at a time so that they leave through Goexit.
func (s *Sched) teardownNext() {
	s.tmu.Lock()
	defer s.tmu.Unlock()
	for _, t := range s.threads {
		if !t.done && t.parked {
			t.parked = false
			s.cur = t
			t.wake <- struct{}{}
			return
		}
	}
	for _, t := range s.threads {
		if !t.done {
			return // still unwinding
		}
	}
	s.finOnce.Do(func() { close(s.finished) })
}

// InTeardown reports whether the execution is being dismantled: shim operations must return at once.
func InTeardown() bool { s := Current(); return s != nil && s.teardown }

// Logf appends an observation to the execution's log (a hooked object: order of observations is part of the state).
func Logf(format string, a ...interface{}) {
	if Free() {
		freeLogf(format, a...)
		return
	}
	if s := Current(); s != nil && !s.teardown {
		msg := fmt.Sprintf(format, a...)
		s.logObj.Touch(strHash(msg))
		s.Log = append(s.Log, msg)
	}
}

// ThreadName returns the name of the running thread.
func ThreadName() string {
	if s := Current(); s != nil && s.cur != nil {
		return s.cur.name
	}
	return ""
}

// SetThreadName renames the running thread (for readable deadlock reports).
func SetThreadName(n string) {
	if s := Current(); s != nil && s.cur != nil {
		s.cur.name = n
	}
}

// ---- virtual time ----

func (s *Sched) now() time.Time { return processBase.Add(s.clock) }

// Now is the virtual time: processBase plus the virtual offset.
func Now() time.Time {
	if s := Current(); s != nil {
		return s.now()
	}
	return time.Now()
}

// Sleep blocks the thread until the virtual clock has advanced by d (it advances only when nothing else can run).
func Sleep(d time.Duration) {
	s := Current()
	if s == nil && Free() {
		if d > 100*time.Millisecond {
			d = 100 * time.Millisecond // free-running mode only runs scenarios without long idle periods
		}
		time.Sleep(d)
		return
	}
	if s == nil || s.teardown {
		return
	}
	if d <= 0 {
		Point("sleep0", nil)
		return
	}
	until := s.now().Add(d)
	PointTimed("sleep", func() bool { return !s.now().Before(until) }, func() time.Time { return until })
}

// ---- hashing / objects / vector clocks ----

func mix(a, b uint64) uint64 {
	x := a ^ (b + 0x9e3779b97f4a7c15 + (a << 6) + (a >> 2))
	x ^= x >> 33
	x *= 0xff51afd7ed558ccd
	x ^= x >> 33
	return x
}

// Obj is a hooked object: a hash chain for the state fingerprint and a clock for happens-before edges.
type Obj struct {
	h   uint64
	clk []uint32
	reg bool
}

// Touch records an operation of the current thread on o in the hash chains.
func (o *Obj) Touch(op uint64) {
	s := Current()
	if s == nil || s.teardown {
		return
	}
	o.touchBy(s.cur, op)
}

func (o *Obj) touchBy(t *thread, op uint64) {
	s := Current()
	if !o.reg {
		o.reg = true
		s.objs = append(s.objs, o)
	}
	t.h = mix(mix(t.h, op), o.h)
	o.h = mix(o.h, t.h)
}

func (t *thread) tick() { t.vc[t.id]++ }

func join(dst *[]uint32, src []uint32) {
	for len(*dst) < len(src) {
		*dst = append(*dst, 0)
	}
	for i, v := range src {
		if v > (*dst)[i] {
			(*dst)[i] = v
		}
	}
}

// Acquire joins the object's clock into the current thread's.
func (o *Obj) Acquire() {
	s := Current()
	if s == nil || s.teardown {
		return
	}
	join(&s.cur.vc, o.clk)
}

// Release joins the current thread's clock into the object's and advances the thread.
func (o *Obj) Release() {
	s := Current()
	if s == nil || s.teardown {
		return
	}
	join(&o.clk, s.cur.vc)
	s.cur.tick()
}

// RMW models an atomic read-modify-write on the object: acquire and release.
func (o *Obj) RMW() { o.Acquire(); o.Release() }

func (s *Sched) fingerprint(self *thread) uint64 {
	var fp uint64 = self.cid
	for _, t := range s.threads {
		d := uint64(2)
		if t.done {
			d = 3
		}
		fp ^= mix(mix(t.cid, t.h), d)
	}
	for _, o := range s.objs {
		fp ^= mix(0x51, o.h)
	}
	return fp
}

// ---- race detector (FastTrack-style, vector clocks) ----

type epoch struct {
	tid  int
	clk  uint32
	site uint32
}

type shadowCell struct {
	w     epoch
	hasW  bool
	reads []epoch
}

var siteNames = []string{"?"}
var siteLocs = []string{"?"}

// RegisterSites is called from the transformed packages' init: names[i] is the function, locs[i] the Type.field.
func RegisterSites(names, locs []string) uint32 {
	base := uint32(len(siteNames))
	siteNames = append(siteNames, names...)
	for _, l := range locs {
		if strings.HasSuffix(l, "#map") { // the transformer marks fields of map type
			l = strings.TrimSuffix(l, "#map")
			mapLocs[l] = true
		}
		siteLocs = append(siteLocs, l)
	}
	return base
}

var mapLocs = map[string]bool{}

// IsMapLoc: the location is a struct field of map type. Unordered conflicting accesses to a Go map are not
// only a data race: the runtime detects them and kills the process ("fatal error: concurrent map writes").
func IsMapLoc(loc string) bool { return mapLocs[loc] }

// NewSite registers one access site (used by the shims for their own objects).
func NewSite(fn, loc string) uint32 {
	siteNames = append(siteNames, fn)
	siteLocs = append(siteLocs, loc)
	return uint32(len(siteNames) - 1)
}

func (s *Sched) hb(e epoch, t *thread) bool {
	return e.tid == t.id || (e.tid < len(t.vc) && e.clk <= t.vc[e.tid])
}

func (s *Sched) race(prev epoch, prevW bool, site uint32, w bool) {
	kind := func(b bool) string {
		if b {
			return "w"
		}
		return "r"
	}
	a := siteNames[prev.site] + " (" + kind(prevW) + ")"
	b := siteNames[site] + " (" + kind(w) + ")"
	if b < a {
		a, b = b, a
	}
	loc := siteLocs[site]
	key := loc + ": " + a + " || " + b
	if r, ok := s.Races[key]; ok {
		r.Count++
	} else {
		s.Races[key] = &Race{Loc: loc, A: a, B: b, Count: 1}
	}
	if AbortOnRace && !s.teardown && strings.HasPrefix(loc, "bufio.") {
		// racing uses of a bufio reader/writer corrupt library state and can spin natively: the execution ends
		// here, the race is the verdict. Races on plain fields and captured variables are recorded and the
		// execution goes on, so that the functional oracles still see what the race leads to.
		s.RaceAbort = true
		s.startTeardown()
		runtime.Goexit()
	}
}

// AbortOnRace ends an execution at its first data race.
var AbortOnRace = true

// Fatal models a Go runtime fatal error (not recoverable): the process dies.
func Fatal(msg string) {
	s := Current()
	if s == nil || s.teardown {
		return
	}
	if s.Crash == nil {
		s.Crash = &Crash{Thread: s.cur.name, Value: "fatal error: " + msg, Site: panicSiteSkip(3)}
	}
	s.startTeardown()
	runtime.Goexit()
}

// Access records a memory access at address p by the current thread.
func Access(p unsafe.Pointer, write bool, site uint32) {
	s := Current()
	if s == nil || s.teardown {
		return
	}
	t := s.cur
	c := s.shadow[p]
	if c == nil {
		c = &shadowCell{}
		s.shadow[p] = c
	}
	me := epoch{t.id, t.vc[t.id], site}
	if c.hasW && !s.hb(c.w, t) {
		s.race(c.w, true, site, write)
	}
	if write {
		for _, r := range c.reads {
			if !s.hb(r, t) {
				s.race(r, false, site, true)
			}
		}
		c.w, c.hasW, c.reads = me, true, c.reads[:0]
	} else {
		for i, r := range c.reads {
			if r.tid == t.id {
				c.reads[i] = me
				return
			}
		}
		c.reads = append(c.reads, me)
	}
}

// Rd records a read of *p and returns the value.
func Rd[T any](p *T, site uint32) T { Access(unsafe.Pointer(p), false, site); return *p }

// W records a write of *p (called right after the write, before any scheduling point).
func W[T any](p *T, site uint32) { Access(unsafe.Pointer(p), true, site) }

// AppendSlot is wrapped around the first argument of append: when the appended element fits into the capacity
// of s, append writes it in place, behind s; that write is recorded (an append that reallocates writes only
// memory nobody else can see). It returns s unchanged.
func AppendSlot[T any](s []T, site uint32) []T {
	if cap(s) > len(s) && unsafe.Sizeof(*new(T)) > 0 {
		Access(unsafe.Pointer(&s[:len(s)+1][len(s)]), true, site)
	}
	return s
}

// WP records a write of *p and returns p: wrapped around a package-level value that is worked on in place
// (a pointer method called on it, or its address taken).
func WP[T any](p *T, site uint32) *T { Access(unsafe.Pointer(p), true, site); return p }
