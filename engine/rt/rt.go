// Package vrt: spike of the cooperative scheduler.
package vrt

import (
	"fmt"
	"os"
	"runtime"
	"strings"
	"sync/atomic"
	"unsafe"
)

type thread struct {
	id      int
	cid     uint64 // canonical id
	nspawn  int
	vc      []uint32 // vector clock
	h       uint64   // hash chain
	nobj    int
	wake    chan struct{}
	enabled func() bool // nil = always
	opName  string
	done    bool
	parked  bool
}

type Step struct {
	N          int  // number of enabled threads
	Chosen     int  // index in canonical enabled list
	CurEnabled bool // running thread was still enabled
}

type Sched struct {
	threads  []*thread
	cur      *thread
	prefix   []int
	Trace    []Step
	finished chan struct{}
	Deadlock bool
	Blocked  []string
	Crash    interface{}
	teardown bool
	Points   int
	gidMap   map[int64]*thread
	Log      []string
	Races    map[string]int
	shadow   map[uintptr]*shadowCell
	objs     []*Obj
	logObj   *Obj
	// pruning
	Seen   map[uint64]int
	Budget func(k int) int // remaining budget at choice index k (nil = no pruning)
	Pruned bool
	States int
}

var cur atomic.Pointer[Sched]

func Current() *Sched { return cur.Load() }

type abortT struct{}

// Run executes body as thread 0 under a fresh scheduler replaying prefix.
func Run(prefix []int, body func(), pre func(*Sched)) *Sched {
	s := &Sched{prefix: prefix, finished: make(chan struct{}), Races: map[string]int{}, shadow: map[uintptr]*shadowCell{}}
	if pre != nil {
		pre(s)
	}
	cur.Store(s)
	t := s.newThread()
	t.cid = 1
	t.vc = []uint32{1}
	s.logObj = s.NewObj()
	s.cur = t
	go s.threadMain(t, body)
	<-s.finished
	cur.Store(nil)
	return s
}

func (s *Sched) newThread() *thread {
	t := &thread{id: len(s.threads), wake: make(chan struct{}, 1)}
	s.threads = append(s.threads, t)
	return t
}

func (s *Sched) threadMain(t *thread, body func()) {
	defer func() {
		if r := recover(); r != nil {
			if _, ok := r.(abortT); !ok && s.Crash == nil {
				s.Crash = fmt.Sprintf("thread %d: %v", t.id, r)
			}
		}
		t.done = true
		if s.teardown {
			s.teardownNext()
			return
		}
		if s.Crash != nil {
			s.startTeardown()
			return
		}
		s.schedule(t, true)
	}()
	if t.id != 0 {
		<-t.wake // wait to be scheduled the first time
		if s.teardown {
			return
		}
	}
	body()
}

// Go spawns a new controlled thread.
func Go(f func()) {
	s := Current()
	if s == nil {
		go f()
		return
	}
	if s.teardown {
		return
	}
	p := s.cur
	t := s.newThread()
	p.nspawn++
	t.cid = mix(p.cid, uint64(p.nspawn)+0x9e37)
	t.vc = make([]uint32, len(s.threads))
	copy(t.vc, p.vc)
	t.vc[t.id] = 1
	p.tick()
	t.parked = true
	t.opName = "start"
	go s.threadMain(t, f)
	// spawning is a point: the child may run first
	Point("go", nil)
}

// Point is a scheduling point. enabled==nil means always enabled.
func Point(name string, enabled func() bool) {
	s := Current()
	if s == nil {
		return
	}
	if s.teardown {
		runtime.Goexit()
	}
	t := s.cur
	t.enabled = enabled
	t.opName = name
	s.Points++
	s.schedule(t, false)
	if s.teardown {
		runtime.Goexit()
	}
	t.h = mix(t.h, 0x77) // the pending operation is about to execute: the thread's position changed
}

func (s *Sched) isEnabled(t *thread) bool {
	if t.done {
		return false
	}
	return t.enabled == nil || t.enabled()
}

// schedule picks the next thread. self is the calling thread (parks unless chosen).
func (s *Sched) schedule(self *thread, exiting bool) {
	var en []*thread
	curEnabled := false
	if !exiting && s.isEnabled(self) {
		en = append(en, self)
		curEnabled = true
	}
	for _, t := range s.threads {
		if t != self && s.isEnabled(t) {
			en = append(en, t)
		}
	}
	if len(en) == 0 {
		alive := false
		for _, t := range s.threads {
			if !t.done {
				alive = true
				s.Blocked = append(s.Blocked, fmt.Sprintf("t%d@%s", t.id, t.opName))
			}
		}
		if alive {
			s.Deadlock = true
			s.startTeardown()
			if !exiting {
				runtime.Goexit()
			}
			return
		}
		close(s.finished)
		return
	}
	idx := 0
	if len(en) > 1 {
		k := len(s.Trace)
		if k >= len(s.prefix) && s.Seen != nil && s.Budget != nil && !exiting {
			fp := s.fingerprint(self)
			b := s.Budget(k)
			if ob, ok := s.Seen[fp]; ok && ob >= b {
				s.Pruned = true
				s.startTeardown()
				runtime.Goexit()
			}
			if _, ok := s.Seen[fp]; !ok {
				s.States++
			}
			s.Seen[fp] = b
		}
		if k < len(s.prefix) {
			idx = s.prefix[k]
			if idx >= len(en) {
				panic(fmt.Sprintf("replay divergence at step %d: choice %d of %d", k, idx, len(en)))
			}
		}
		s.Trace = append(s.Trace, Step{N: len(en), Chosen: idx, CurEnabled: curEnabled})
	}
	next := en[idx]
	if next == self {
		return
	}
	s.cur = next
	self.parked = true
	next.parked = false
	next.wake <- struct{}{}
	if exiting {
		return
	}
	<-self.wake
}

func (s *Sched) startTeardown() {
	s.teardown = true
	s.teardownNext()
}

// wake parked threads one at a time so that they Goexit.
func (s *Sched) teardownNext() {
	for _, t := range s.threads {
		if !t.done && t.parked {
			t.parked = false
			s.cur = t
			t.wake <- struct{}{}
			return
		}
	}
	for _, t := range s.threads {
		if !t.done {
			return // still unwinding
		}
	}
	select {
	case <-s.finished:
	default:
		close(s.finished)
	}
}

func InTeardown() bool { s := Current(); return s != nil && s.teardown }

func Logf(format string, a ...interface{}) {
	if s := Current(); s != nil && !s.teardown {
		s.logObj.Touch(7)
		s.Log = append(s.Log, fmt.Sprintf(format, a...))
	}
}

// ---- explorer ----

type Stats struct {
	Execs, Steps, Deadlocks, Crashes, Pruned, States int
	Races                                            map[string]int
	Outcomes                                         map[string]int
	FirstDeadlock                                    []int
	FirstDeadlockInfo                                []string
}

func preemptionsBefore(tr []Step, i int) int {
	c := 0
	for _, st := range tr[:i] {
		if st.Chosen > 0 && st.CurEnabled {
			c++
		}
	}
	return c
}

func Explore(bound int, prune bool, body func(), check func(*Sched) string) *Stats {
	st := &Stats{Outcomes: map[string]int{}, Races: map[string]int{}}
	seen := map[uint64]int{}
	var rec func(prefix []int, used int)
	rec = func(prefix []int, used int) {
		x := Run(prefix, body, func(s *Sched) {
			if prune {
				s.Seen = seen
				s.Budget = func(k int) int {
					// budget remaining at choice index k: bound - preemptions so far
					if bound >= 1000 {
						return 0 // unbounded: any revisit is covered
					}
					return bound - preemptionsBefore(s.Trace, k)
				}
			}
		})
		st.Execs++
		st.States += x.States
		if x.Pruned {
			st.Pruned++
		}
		for k, v := range x.Races {
			st.Races[k] += v
		}
		st.Steps += len(x.Trace)
		if x.Deadlock {
			st.Deadlocks++
			if st.FirstDeadlock == nil {
				for _, s := range x.Trace {
					st.FirstDeadlock = append(st.FirstDeadlock, s.Chosen)
				}
				st.FirstDeadlockInfo = x.Blocked
			}
		}
		if x.Crash != nil {
			st.Crashes++
		}
		if !x.Pruned {
			st.Outcomes[check(x)]++
		}
		tr := x.Trace
		for i := len(prefix); i < len(tr); i++ {
			cost := preemptionsBefore(tr, i)
			if tr[i].CurEnabled {
				cost++
			}
			if cost > bound {
				continue
			}
			for alt := 1; alt < tr[i].N; alt++ {
				np := make([]int, i+1)
				for j := 0; j < i; j++ {
					np[j] = tr[j].Chosen
				}
				np[i] = alt
				rec(np, 0)
			}
		}
	}
	rec(nil, 0)
	return st
}

// ---- hashing / objects / vector clocks ----

func mix(a, b uint64) uint64 {
	x := a ^ (b + 0x9e3779b97f4a7c15 + (a << 6) + (a >> 2))
	x ^= x >> 33
	x *= 0xff51afd7ed558ccd
	x ^= x >> 33
	return x
}

type Obj struct {
	h   uint64
	clk []uint32
	reg bool
}

// NewObj creates a hooked object owned by the current execution.
func (s *Sched) NewObj() *Obj {
	return &Obj{}
}

func NewObj() *Obj {
	s := Current()
	if s == nil {
		return &Obj{}
	}
	return s.NewObj()
}

// Touch records an operation of the current thread on o in the hash chains.
func (o *Obj) Touch(op uint64) {
	s := Current()
	if s == nil || s.teardown {
		return
	}
	if !o.reg {
		o.reg = true
		s.objs = append(s.objs, o)
	}
	t := s.cur
	t.h = mix(mix(t.h, op), o.h)
	o.h = mix(o.h, t.h)
}

func (t *thread) tick() { t.vc[t.id]++ }

func join(dst *[]uint32, src []uint32) {
	for len(*dst) < len(src) {
		*dst = append(*dst, 0)
	}
	for i, v := range src {
		if v > (*dst)[i] {
			(*dst)[i] = v
		}
	}
}

func (o *Obj) Acquire() {
	s := Current()
	if s == nil || s.teardown {
		return
	}
	join(&s.cur.vc, o.clk)
}

func (o *Obj) Release() {
	s := Current()
	if s == nil || s.teardown {
		return
	}
	join(&o.clk, s.cur.vc)
	s.cur.tick()
}

func (s *Sched) fingerprint(self *thread) uint64 {
	var fp uint64 = self.cid
	for _, t := range s.threads {
		d := uint64(0)
		if t.done {
			d = 1
		}
		fp ^= mix(mix(t.cid, t.h), d+2)
	}
	for _, o := range s.objs {
		fp ^= mix(0x51, o.h)
	}
	return fp
}

// ---- race detector ----

type epoch struct {
	tid int
	clk uint32
	pc  uintptr
}

type shadowCell struct {
	w     epoch
	hasW  bool
	reads []epoch
}

func (s *Sched) hb(e epoch, t *thread) bool {
	return e.tid == t.id || (e.tid < len(t.vc) && e.clk <= t.vc[e.tid])
}

func site(pc uintptr) string {
	f := runtime.FuncForPC(pc)
	if f == nil {
		return "?"
	}
	return f.Name()
}

func (s *Sched) race(kind string, prev epoch, pc uintptr) {
	a, b := site(prev.pc), site(pc)
	s.Races[kind+" "+a+" || "+b]++
}

func access(p uintptr, write bool) {
	s := Current()
	if s == nil || s.teardown {
		return
	}
	t := s.cur
	var pc uintptr
	if wantSites {
		var pcs [8]uintptr
		n := runtime.Callers(3, pcs[:])
		pc = pcs[0]
		for i := 0; i < n; i++ { // first frame outside the shims
			if f := runtime.FuncForPC(pcs[i]); f != nil && !strings.HasPrefix(f.Name(), "verif/shim") && !strings.HasPrefix(f.Name(), "verif/rt") {
				pc = pcs[i]
				break
			}
		}
	}
	c := s.shadow[p]
	if c == nil {
		c = &shadowCell{}
		s.shadow[p] = c
	}
	me := epoch{t.id, t.vc[t.id], pc}
	if c.hasW && !s.hb(c.w, t) {
		if write {
			s.race("W/W", c.w, pc)
		} else {
			s.race("W/R", c.w, pc)
		}
	}
	if write {
		for _, r := range c.reads {
			if !s.hb(r, t) {
				s.race("R/W", r, pc)
			}
		}
		c.w, c.hasW, c.reads = me, true, c.reads[:0]
	} else {
		for i, r := range c.reads {
			if r.tid == t.id {
				c.reads[i] = me
				return
			}
		}
		c.reads = append(c.reads, me)
	}
}

var wantSites = os.Getenv("NOSITE") == ""

func Rd[T any](p *T) T { access(uintptr(unsafe.Pointer(p)), false); return *p }
func W[T any](p *T)    { access(uintptr(unsafe.Pointer(p)), true) }
