package vrt

// Channel operations under the scheduler. Buffered channels use the native buffer (an operation is enabled
// when it cannot block); unbuffered channels hand the value over through a side slot, the sender staying
// blocked until a receiver has taken it. A send is a release, a receive an acquire of the channel's clock.

type chanState struct {
	keep   interface{} // keeps the channel alive so that its address is not reused within the execution
	o      Obj
	closed bool
	full   bool
	taken  bool
	val    interface{}
}

func (s *Sched) chanOf(ch interface{}) *chanState {
	if s.chans == nil {
		s.chans = map[interface{}]*chanState{}
	}
	st := s.chans[ch]
	if st == nil {
		st = &chanState{}
		s.chans[ch] = st
	}
	return st
}

// NoteClosed tells the scheduler that ch was closed natively (vctx does this for Done channels).
func NoteClosed(ch interface{}) {
	if s := Current(); s != nil {
		s.chanOf(ch).closed = true
	}
}

func Send[C ~chan T | ~chan<- T, T any](ch C, v T) {
	s := Current()
	if s == nil {
		ch <- v
		return
	}
	if s.teardown {
		return
	}
	st := s.chanOf(keyOfSend[C, T](ch))
	if cap(ch) > 0 {
		Point("chan.send", func() bool { return len(ch) < cap(ch) || st.closed })
		st.o.Touch(1)
		st.o.Release()
		ch <- v // panics when closed, as it must
		return
	}
	Point("chan.send", func() bool { return !st.full || st.closed })
	if st.closed {
		panic("send on closed channel")
	}
	st.o.Touch(1)
	st.o.Release()
	st.full, st.val, st.taken = true, v, false
	Point("chan.send.wait", func() bool { return st.taken })
	st.taken = false
	st.o.Acquire()
}

func Recv2[C ~chan T | ~<-chan T, T any](ch C) (T, bool) {
	var zero T
	s := Current()
	if s == nil {
		v, ok := <-ch
		return v, ok
	}
	if s.teardown {
		return zero, false
	}
	st := s.chanOf(keyOfRecv[C, T](ch))
	if cap(ch) > 0 {
		Point("chan.recv", func() bool { return len(ch) > 0 || st.closed })
		st.o.Touch(2)
		st.o.Acquire()
		select {
		case v, ok := <-ch:
			return v, ok
		default:
			return zero, false
		}
	}
	Point("chan.recv", func() bool { return st.full || st.closed })
	st.o.Touch(2)
	st.o.Acquire()
	if st.full {
		v := st.val.(T)
		st.full, st.val, st.taken = false, nil, true
		st.o.Release()
		return v, true
	}
	return zero, false
}

func Recv[C ~chan T | ~<-chan T, T any](ch C) T {
	v, _ := Recv2[C, T](ch)
	return v
}

func Close[C ~chan T | ~chan<- T, T any](ch C) {
	s := Current()
	if s == nil {
		close(ch)
		return
	}
	if s.teardown {
		return
	}
	st := s.chanOf(keyOfSend[C, T](ch))
	Point("chan.close", nil)
	st.o.Touch(3)
	st.o.Release()
	if st.closed {
		panic("close of closed channel")
	}
	st.closed = true
	close(ch)
}

// Channel identity: a bidirectional channel converted to a directional type is the same channel; use the
// bidirectional value as the key where the static type allows it, the directional value otherwise. The
// transformer only sees one view per site, and gldap-sized code does not mix views of one channel.
func keyOfSend[C ~chan T | ~chan<- T, T any](ch C) interface{} { return chanKey(interface{}(ch)) }
func keyOfRecv[C ~chan T | ~<-chan T, T any](ch C) interface{} { return chanKey(interface{}(ch)) }

func chanKey(ch interface{}) interface{} { return chanPtr(ch) }

// ChanRelease / ChanAcquire give native (non-blocking) select cases their happens-before edges: the
// transformer calls ChanRelease(ch) before a select that may send on ch and ChanAcquire(ch) at the start of
// the body of a receive case.
func ChanRelease(ch interface{}) {
	s := Current()
	if s == nil || s.teardown {
		return
	}
	st := s.chanOf(chanKey(ch))
	st.keep = ch
	st.o.Touch(4)
	st.o.Release()
}

func ChanAcquire(ch interface{}) {
	s := Current()
	if s == nil || s.teardown {
		return
	}
	st := s.chanOf(chanKey(ch))
	st.keep = ch
	st.o.Touch(5)
	st.o.Acquire()
}
