package vrt

import "runtime"

// Channel operations under the scheduler. Buffered channels use the native buffer (an operation is enabled
// when it cannot block); unbuffered channels hand the value over through a side slot, the sender staying
// blocked until a receiver has taken it. A send is a release, a receive an acquire of the channel's clock.

type chanState struct {
	keep   interface{} // keeps the channel alive so that its address is not reused within the execution
	o      Obj
	closed bool
	full   bool
	taken  bool
	val    interface{}
	rwait  int // threads blocked in a plain receive on this (unbuffered) channel
	// blocked selects with a send / receive case on this unbuffered channel
	selSend, selRecv int
}

func (s *Sched) chanOf(ch interface{}) *chanState {
	if s.chans == nil {
		s.chans = map[interface{}]*chanState{}
	}
	st := s.chans[ch]
	if st == nil {
		st = &chanState{}
		s.chans[ch] = st
	}
	return st
}

// NoteClosed tells the scheduler that ch was closed natively (vctx does this for Done channels).
func NoteClosed(ch interface{}) {
	if s := Current(); s != nil {
		st := s.chanOf(chanKey(ch))
		st.keep = ch
		st.closed = true
	}
}

func Send[C ~chan T | ~chan<- T, T any](ch C, v T) {
	s := Current()
	if s == nil {
		ch <- v
		return
	}
	if s.teardown {
		return
	}
	st := s.chanOf(keyOfSend[C, T](ch))
	st.keep = ch
	if cap(ch) > 0 {
		Point("chan.send", func() bool { return len(ch) < cap(ch) || st.closed })
		st.o.Touch(1)
		st.o.Release()
		ch <- v // panics when closed, as it must
		return
	}
	Point("chan.send", func() bool { return !st.full || st.closed })
	if st.closed {
		panic("send on closed channel")
	}
	st.o.Touch(1)
	st.o.Release()
	st.full, st.val, st.taken = true, v, false
	Point("chan.send.wait", func() bool { return st.taken })
	st.taken = false
	st.o.Acquire()
}

func Recv2[C ~chan T | ~<-chan T, T any](ch C) (T, bool) {
	var zero T
	s := Current()
	if s == nil {
		v, ok := <-ch
		return v, ok
	}
	if s.teardown {
		return zero, false
	}
	st := s.chanOf(keyOfRecv[C, T](ch))
	st.keep = ch
	if cap(ch) > 0 {
		Point("chan.recv", func() bool { return len(ch) > 0 || st.closed })
		st.o.Touch(2)
		st.o.Acquire()
		select {
		case v, ok := <-ch:
			return v, ok
		default:
			return zero, false
		}
	}
	st.rwait++
	Point("chan.recv", func() bool { return st.full || st.closed })
	st.rwait--
	st.o.Touch(2)
	st.o.Acquire()
	if st.full {
		v := st.val.(T)
		st.full, st.val, st.taken = false, nil, true
		st.o.Release()
		return v, true
	}
	return zero, false
}

func Recv[C ~chan T | ~<-chan T, T any](ch C) T {
	v, _ := Recv2[C, T](ch)
	return v
}

func Close[C ~chan T | ~chan<- T, T any](ch C) {
	s := Current()
	if s == nil {
		close(ch)
		return
	}
	if s.teardown {
		return
	}
	st := s.chanOf(keyOfSend[C, T](ch))
	Point("chan.close", nil)
	st.o.Touch(3)
	st.o.Release()
	if st.closed {
		panic("close of closed channel")
	}
	st.closed = true
	close(ch)
}

// Channel identity: a bidirectional channel converted to a directional type is the same channel; use the
// bidirectional value as the key where the static type allows it, the directional value otherwise. The
// transformer only sees one view per site, and gldap-sized code does not mix views of one channel.
func keyOfSend[C ~chan T | ~chan<- T, T any](ch C) interface{} { return chanKey(interface{}(ch)) }
func keyOfRecv[C ~chan T | ~<-chan T, T any](ch C) interface{} { return chanKey(interface{}(ch)) }

func chanKey(ch interface{}) interface{} { return chanPtr(ch) }

// ChanRelease / ChanAcquire give native (non-blocking) select cases their happens-before edges: the
// transformer calls ChanRelease(ch) before a select that may send on ch and ChanAcquire(ch) at the start of
// the body of a receive case.
func ChanRelease(ch interface{}) {
	s := Current()
	if s == nil || s.teardown {
		return
	}
	st := s.chanOf(chanKey(ch))
	st.keep = ch
	st.o.Touch(4)
	st.o.Release()
}

func ChanAcquire(ch interface{}) {
	s := Current()
	if s == nil || s.teardown {
		return
	}
	st := s.chanOf(chanKey(ch))
	st.keep = ch
	st.o.Touch(5)
	st.o.Acquire()
}

// ---- select

// SelCase is one communication alternative of a select statement.
type SelCase struct {
	st      *chanState
	send    bool
	unbuf   bool
	isNil   bool
	nativeN func() (length, capacity int)
}

func RecvCase[C ~chan T | ~<-chan T, T any](ch C) SelCase {
	s := Current()
	if ch == nil || s == nil {
		return SelCase{isNil: true}
	}
	return SelCase{st: s.chanOf(keyOfRecv[C, T](ch)), unbuf: cap(ch) == 0, nativeN: func() (int, int) { return len(ch), cap(ch) }}
}

func SendCase[C ~chan T | ~chan<- T, T any](ch C) SelCase {
	s := Current()
	if ch == nil || s == nil {
		return SelCase{isNil: true, send: true}
	}
	return SelCase{st: s.chanOf(keyOfSend[C, T](ch)), send: true, unbuf: cap(ch) == 0, nativeN: func() (int, int) { return len(ch), cap(ch) }}
}

func (c SelCase) ready() bool {
	if c.isNil {
		return false
	}
	if c.st.closed {
		return true // a receive yields the zero value, a send panics: either way the case proceeds
	}
	switch {
	case !c.send && c.unbuf:
		return c.st.full
	case !c.send:
		n, _ := c.nativeN()
		return n > 0
	case c.unbuf:
		// a send on an unbuffered channel proceeds only when a receiver is waiting for it
		return c.st.rwait > 0 && !c.st.full
	default:
		n, k := c.nativeN()
		return n < k
	}
}

// Select models a select statement: it blocks until one alternative can proceed (never, without a default,
// if all channels are nil), picks one of the ready alternatives (a choice point of the explorer when there is
// more than one: Go picks pseudo-randomly) and returns its index; -1 stands for the default case. The
// transformed code then performs the chosen operation with the ordinary Send / Recv, whose own scheduling
// point is part of the same atomic step.
func Select(hasDefault bool, cases ...SelCase) int {
	s := Current()
	if s == nil {
		panic("vrt.Select outside the scheduler")
	}
	if s.teardown {
		runtime.Goexit()
	}
	readyIdx := func() []int {
		var r []int
		for i, c := range cases {
			if c.ready() {
				r = append(r, i)
			}
		}
		return r
	}
	if hasDefault {
		Point("select", nil)
		r := readyIdx()
		if len(r) == 0 {
			return -1
		}
		k := 0
		if len(r) > 1 {
			k = Choose("select", len(r))
		}
		s.cur.skipPoint = true
		return r[k]
	}
	for _, c := range cases {
		if c.unbuf && !c.isNil {
			if c.send {
				c.st.selSend++
			} else {
				c.st.selRecv++
			}
		}
	}
	Point("select", func() bool { return len(readyIdx()) > 0 })
	for _, c := range cases {
		if c.unbuf && !c.isNil {
			if c.send {
				c.st.selSend--
			} else {
				c.st.selRecv--
			}
		}
	}
	r := readyIdx()
	k := 0
	if len(r) > 1 {
		k = Choose("select", len(r))
	}
	s.cur.skipPoint = true
	return r[k]
}
