package vrt

import "reflect"

// Package-level variables of the code under test survive from one execution to the next (all executions of a
// worker run in one process), so state kept there - a counter, a cache, a pool, a semaphore channel - would make
// later executions start somewhere else than the first one and a recorded schedule would not replay. The
// transformer registers the address of every package-level variable of the transformed packages; the value each
// had after package initialisation is restored at the start of every execution.

type globalVar struct {
	ptr  reflect.Value // pointer to the variable
	snap snapshot
}

type snapshot struct {
	kind  reflect.Kind
	val   reflect.Value // copy of the value (maps and slices: a copy of the contents)
	cap   int           // channels
	elem  *snapshot     // pointers: the pointee
	isNil bool
}

var globals []globalVar

// RegisterGlobals is called from an init function generated into each transformed package.
func RegisterGlobals(ptrs ...interface{}) {
	for _, p := range ptrs {
		v := reflect.ValueOf(p)
		if v.Kind() != reflect.Ptr || v.IsNil() {
			continue
		}
		globals = append(globals, globalVar{ptr: v, snap: snap(v.Elem(), 0)})
	}
}

func snap(v reflect.Value, depth int) snapshot {
	s := snapshot{kind: v.Kind()}
	switch v.Kind() {
	case reflect.Chan:
		s.isNil = v.IsNil()
		if !s.isNil {
			s.cap = v.Cap()
		}
	case reflect.Map:
		s.isNil = v.IsNil()
		if !s.isNil {
			c := reflect.MakeMapWithSize(v.Type(), v.Len())
			it := v.MapRange()
			for it.Next() {
				c.SetMapIndex(it.Key(), it.Value())
			}
			s.val = c
		}
	case reflect.Slice:
		s.isNil = v.IsNil()
		if !s.isNil {
			c := reflect.MakeSlice(v.Type(), v.Len(), v.Len())
			reflect.Copy(c, v)
			s.val = c
		}
	case reflect.Ptr:
		s.isNil = v.IsNil()
		if !s.isNil && depth < 2 && v.Elem().CanSet() {
			e := snap(v.Elem(), depth+1)
			s.elem = &e
		}
		c := reflect.New(v.Type()).Elem()
		c.Set(v)
		s.val = c
	default:
		c := reflect.New(v.Type()).Elem()
		c.Set(v)
		s.val = c
	}
	return s
}

func restore(v reflect.Value, s *snapshot) {
	if !v.CanSet() {
		return
	}
	switch s.kind {
	case reflect.Chan:
		if s.isNil || v.Type().ChanDir() != reflect.BothDir {
			return
		}
		if !v.IsNil() && v.Len() == 0 && v.Cap() == s.cap {
			return // untouched
		}
		v.Set(reflect.MakeChan(v.Type(), s.cap))
	case reflect.Map:
		if s.isNil {
			v.Set(reflect.Zero(v.Type()))
			return
		}
		c := reflect.MakeMapWithSize(v.Type(), s.val.Len())
		it := s.val.MapRange()
		for it.Next() {
			c.SetMapIndex(it.Key(), it.Value())
		}
		v.Set(c)
	case reflect.Slice:
		if s.isNil {
			v.Set(reflect.Zero(v.Type()))
			return
		}
		c := reflect.MakeSlice(v.Type(), s.val.Len(), s.val.Len())
		reflect.Copy(c, s.val)
		v.Set(c)
	case reflect.Ptr:
		v.Set(s.val) // same pointee as after initialisation ...
		if s.elem != nil && !v.IsNil() {
			restore(v.Elem(), s.elem) // ... with its initial contents
		}
	default:
		v.Set(s.val)
	}
}

// resetGlobals runs at the start of every execution.
func resetGlobals() {
	for i := range globals {
		g := &globals[i]
		restore(g.ptr.Elem(), &g.snap)
	}
}
