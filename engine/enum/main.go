// enum: ENUM worker — bounded-exhaustive / explicit-state checks over the real (untransformed) gldap API.
package main

import (
	"encoding/json"
	"fmt"
	"os"
	"os/exec"
	"regexp"
	"runtime"
	"sort"
	"strings"
	"sync"
	"time"

	"verif/ev"
)

// Ctx is what a check body sees in one shard process.
type Ctx struct {
	Prop     string
	Tier     string
	Shard    int
	NShards  int
	Counts   map[string]int64
	Outc     map[string]int64
	Viol     []*ev.Violation
	violIdx  map[string]*ev.Violation
	Samp     []interface{}
	Deadline time.Time
	CapHit   bool
	n        int64
}

func (c *Ctx) Thorough() bool          { return c.Tier == "thorough" }
func (c *Ctx) Count(k string, d int64) { c.Counts[k] += d }
func (c *Ctx) Outcome(k string)        { c.Outc[k]++ }
func (c *Ctx) Sample(x interface{}) {
	if len(c.Samp) < 6 {
		c.Samp = append(c.Samp, x)
	}
}
func (c *Ctx) Report(key, detail string, replay interface{}) {
	if v, ok := c.violIdx[key]; ok {
		v.Count++
		return
	}
	v := &ev.Violation{Key: key, Detail: detail, Replay: replay, Count: 1}
	c.violIdx[key] = v
	c.Viol = append(c.Viol, v)
}

// Mine implements static sharding: the i-th work item belongs to shard i mod NShards.
func (c *Ctx) Mine() bool {
	c.n++
	return int((c.n-1)%int64(c.NShards)) == c.Shard
}

// Expired reports whether the internal deadline passed (a cap, never a violation).
func (c *Ctx) Expired() bool {
	if !c.Deadline.IsZero() && time.Now().After(c.Deadline) {
		c.CapHit = true
		return true
	}
	return false
}

type shardOut struct {
	Counts map[string]int64 `json:"counts"`
	Outc   map[string]int64 `json:"outcomes"`
	Viol   []*ev.Violation  `json:"violations"`
	Samp   []interface{}    `json:"samples"`
	CapHit bool             `json:"cap_hit"`
}

type Check struct {
	Shards   func(tier string) int
	Run      func(c *Ctx)
	Finalize func(m *shardOut, r *ev.Run)
	Replay   func(payload json.RawMessage, c *Ctx)
	Level    string
}

var checks = map[string]*Check{}

func main() {
	if len(os.Args) < 2 {
		fmt.Fprintln(os.Stderr, "usage: enum <ID> | enum replay <file>")
		os.Exit(2)
	}
	if os.Args[1] == "replay" {
		os.Exit(replay(os.Args[2]))
	}
	id := os.Args[1]
	ck := checks[id]
	if ck == nil {
		fmt.Fprintf(os.Stderr, "enum: no check %s\n", id)
		os.Exit(2)
	}
	tier := ev.Tier()
	if sh := os.Getenv("VERIF_SHARD"); sh != "" {
		var i, n int
		fmt.Sscanf(sh, "%d/%d", &i, &n)
		c := newCtx(id, tier, i, n)
		// the result travels over the real stdout; code under test that prints (the test directory does) must not
		// get in its way
		realOut := os.Stdout
		if dn, err := os.OpenFile(os.DevNull, os.O_WRONLY, 0); err == nil {
			os.Stdout = dn
		}
		ck.Run(c)
		out := shardOut{Counts: c.Counts, Outc: c.Outc, Viol: c.Viol, Samp: c.Samp, CapHit: c.CapHit}
		json.NewEncoder(realOut).Encode(out)
		return
	}
	n := 1
	if ck.Shards != nil {
		n = ck.Shards(tier)
	}
	r := ev.New(id, tier, "enum")
	merged := runShards(id, n)
	for _, v := range merged.Viol {
		for i := 0; i < v.Count; i++ {
			r.Report(v.Key, v.Detail, v.Replay)
		}
	}
	ck.Finalize(merged, r)
	r.Cov["cap_hit"] = merged.CapHit
	if merged.CapHit {
		r.Cov["exhaustive"] = false
	}
	level := ck.Level
	if level == "" {
		level = "model_checking"
	}
	os.Exit(r.Finish(level))
}

func newCtx(id, tier string, i, n int) *Ctx {
	c := &Ctx{Prop: id, Tier: tier, Shard: i, NShards: n, Counts: map[string]int64{}, Outc: map[string]int64{}, violIdx: map[string]*ev.Violation{}}
	if d := os.Getenv("VERIF_DEADLINE_S"); d != "" {
		var s int
		fmt.Sscanf(d, "%d", &s)
		c.Deadline = time.Now().Add(time.Duration(s) * time.Second)
	}
	return c
}

func runShards(id string, n int) *shardOut {
	merged := &shardOut{Counts: map[string]int64{}, Outc: map[string]int64{}}
	idx := map[string]*ev.Violation{}
	var mu sync.Mutex
	var wg sync.WaitGroup
	sem := make(chan struct{}, runtime.NumCPU())
	fail := false
	for i := 0; i < n; i++ {
		wg.Add(1)
		go func(i int) {
			defer wg.Done()
			sem <- struct{}{}
			defer func() { <-sem }()
			var b []byte
			var err error
			for attempt := 0; attempt < 4; attempt++ {
				cmd := exec.Command(os.Args[0], id)
				cmd.Env = append(os.Environ(), fmt.Sprintf("VERIF_SHARD=%d/%d", i, n), "GOMAXPROCS=2")
				cmd.Stderr = os.Stderr
				b, err = cmd.Output()
				if ee, ok := err.(*exec.ExitError); !ok || ee.ExitCode() != exitRetryShard {
					break // anything but "the environment could not be set up: run me again"
				}
			}
			var so shardOut
			if err != nil || json.Unmarshal(b, &so) != nil {
				fmt.Fprintf(os.Stderr, "enum: shard %d/%d of %s failed: %v\n%s\n", i, n, id, err, tail(b))
				mu.Lock()
				fail = true
				mu.Unlock()
				return
			}
			mu.Lock()
			defer mu.Unlock()
			for k, v := range so.Counts {
				merged.Counts[k] += v
			}
			for k, v := range so.Outc {
				merged.Outc[k] += v
			}
			for _, v := range so.Viol {
				if o, ok := idx[v.Key]; ok {
					o.Count += v.Count
				} else {
					idx[v.Key] = v
					merged.Viol = append(merged.Viol, v)
				}
			}
			if len(merged.Samp) < 8 {
				merged.Samp = append(merged.Samp, so.Samp...)
			}
			merged.CapHit = merged.CapHit || so.CapHit
		}(i)
	}
	wg.Wait()
	if fail {
		fmt.Fprintln(os.Stderr, "enum: checker failure (exit 2)")
		os.Exit(2)
	}
	sort.Slice(merged.Viol, func(i, j int) bool { return merged.Viol[i].Key < merged.Viol[j].Key })
	if len(merged.Samp) > 8 {
		merged.Samp = merged.Samp[:8]
	}
	return merged
}

func tail(b []byte) string {
	if len(b) > 2000 {
		b = b[len(b)-2000:]
	}
	return string(b)
}

func replay(path string) int {
	b, err := os.ReadFile(path)
	if err != nil {
		fmt.Fprintln(os.Stderr, err)
		return 2
	}
	var doc struct {
		Property string          `json:"property"`
		Key      string          `json:"key"`
		Replay   json.RawMessage `json:"replay"`
	}
	if err := json.Unmarshal(b, &doc); err != nil {
		fmt.Fprintln(os.Stderr, err)
		return 2
	}
	ck := checks[doc.Property]
	if ck == nil || ck.Replay == nil {
		fmt.Fprintf(os.Stderr, "enum: no replay for %s\n", doc.Property)
		return 2
	}
	c := newCtx(doc.Property, "quick", 0, 1)
	ck.Replay(doc.Replay, c)
	if len(c.Viol) == 0 {
		fmt.Printf("replay: no violation reproduced for %s\n", doc.Key)
		return 0
	}
	for _, v := range c.Viol {
		fmt.Printf("VIOLATION property=%s replay=%s\n  key: %s\n  detail: %s\n", doc.Property, path, v.Key, v.Detail)
	}
	return 1
}

// ---- panic capture ----

var digits = regexp.MustCompile(`[0-9]+`)
var hexaddr = regexp.MustCompile(`0x[0-9a-f]+`)

// try runs f and, if it panics, returns a stable identity "panic <gldap function>: <normalised message>".
func try(f func()) (key string) {
	defer func() {
		if r := recover(); r != nil {
			key = panicKey(r)
		}
	}()
	f()
	return ""
}

func panicKey(r interface{}) string {
	pcs := make([]uintptr, 64)
	n := runtime.Callers(3, pcs)
	frames := runtime.CallersFrames(pcs[:n])
	fn := "?"
	for {
		fr, more := frames.Next()
		if strings.HasPrefix(fr.Function, "github.com/jimlambrt/gldap") {
			fn = strings.TrimPrefix(fr.Function, "github.com/jimlambrt/")
			// closures: gldap.(*conn).readPacket.func1 -> keep the enclosing function
			if i := strings.Index(fn, ".func"); i > 0 {
				fn = fn[:i]
			}
			break
		}
		if !more {
			break
		}
	}
	msg := fmt.Sprint(r)
	msg = hexaddr.ReplaceAllString(msg, "0xN")
	msg = digits.ReplaceAllString(msg, "N")
	if len(msg) > 120 {
		msg = msg[:120]
	}
	return "panic " + fn + ": " + msg
}

// attachSecondary embeds the coverage summary of the SCHED part (run by ./check before this worker).
func attachSecondary(r *ev.Run) {
	path := os.Getenv("VERIF_SECONDARY")
	if path == "" {
		return
	}
	b, err := os.ReadFile(path)
	if err != nil {
		return
	}
	var m map[string]interface{}
	if json.Unmarshal(b, &m) == nil {
		r.Cov["sched_part"] = m
	}
}
