package main

import (
	"encoding/hex"
	"encoding/json"
	"fmt"
	"reflect"
	"sort"
	"strings"

	"github.com/jimlambrt/gldap"
	"verif/codec"
	"verif/ev"
)

// C16 — exported helpers and constructors are total.

func init() {
	checks["C16"] = &Check{
		Shards: func(tier string) int { return 16 },
		Run:    c16run,
		Finalize: func(m *shardOut, r *ev.Run) {
			states := m.Counts["inputs"]
			r.Cov["states"] = states
			r.Cov["transitions"] = m.Counts["calls"]
			r.Cov["traces_validated_against_impl"] = m.Counts["calls"]
			r.Cov["evaluations"] = m.Counts["calls"]
			r.Cov["distinct_nontrivial"] = len(m.Outc)
			r.Cov["rule"] = "every input of each finite family (strings over a 9-byte alphabet up to the length bound, all (revision, authority) pairs, byte slices over a 4-byte alphabet, option subsets in every order, op sequences) is passed to the real exported function under recover(); distinct_nontrivial = distinct (function, outcome class) pairs observed"
			r.Cov["samples"] = m.Samp
			r.Cov["exhaustive"] = true
			r.Cov["per_family"] = m.Counts
			r.Cov["outcomes"] = m.Outc
			attachSecondary(r)
			r.Assume = []string{"alphabets are finite; values outside them are not explored", "every call goes to the real implementation (untransformed /repo)"}
		},
		Replay: c16replay,
	}
}

var c16alpha = []byte{0x00, 0x01, 0x04, 0x1b, 0x7f, 0x80, 0x81, 0x82, 0xff}

type c16rep struct {
	Fn   string   `json:"fn"`
	Args []string `json:"args_hex"`
	Note string   `json:"note,omitempty"`
}

func hexes(ss ...string) []string {
	o := make([]string, len(ss))
	for i, s := range ss {
		o[i] = hex.EncodeToString([]byte(s))
	}
	return o
}

func c16convert(c *Ctx, args ...string) {
	c.Count("calls", 1)
	if c.n%97 == 3 || len(c.Samp) < 1 {
		c.Sample(map[string]interface{}{"fn": "ConvertString", "args_hex": hexes(args...)})
	}
	var out []string
	var err error
	k := try(func() { out, err = gldap.ConvertString(args...) })
	switch {
	case k != "":
		c.Outcome("ConvertString:panic")
		c.Report(k, fmt.Sprintf("ConvertString(%q) panicked", args), c16rep{Fn: "ConvertString", Args: hexes(args...)})
	case err != nil:
		c.Outcome("ConvertString:error")
	default:
		c.Outcome("ConvertString:ok")
		if len(out) != len(args) {
			c.Report("ConvertString: result length differs from argument count", fmt.Sprintf("ConvertString(%q) = %q", args, out), c16rep{Fn: "ConvertString", Args: hexes(args...)})
		}
	}
}

func c16invert(c *Ctx, s string, tag int) {
	c.Count("calls", 1)
	w := string(codec.Prim(codec.Universal, tag, []byte(s)).Bytes())
	var out []string
	var err error
	k := try(func() { out, err = gldap.ConvertString(w) })
	if k != "" {
		c.Report(k, fmt.Sprintf("ConvertString(BER(%q)) panicked", trunc(s)), c16rep{Fn: "ConvertString", Args: hexes(w)})
		return
	}
	if err != nil || len(out) != 1 || out[0] != s {
		c.Outcome("ConvertString:inversion-fails")
		c.Report(fmt.Sprintf("ConvertString does not invert BER wrapping (tag %d, len class %s)", tag, lenClass(len(s))), fmt.Sprintf("s=%q wrapped=%x got=%q err=%v", trunc(s), trunc(w), out, err), c16rep{Fn: "ConvertString", Args: hexes(w), Note: "inversion"})
		return
	}
	c.Outcome("ConvertString:inverted")
}

func trunc(s string) string {
	if len(s) > 40 {
		return s[:40] + fmt.Sprintf("...(%d bytes)", len(s))
	}
	return s
}

func lenClass(n int) string {
	switch {
	case n == 0:
		return "0"
	case n < 128:
		return "<128"
	case n < 256:
		return "<256"
	case n < 65536:
		return "<65536"
	}
	return ">=65536"
}

func stringAlphabet(thorough bool) []string {
	a := []string{"", "a", "\x00\xff\x04", "cn=alice,ou=people,dc=example,dc=org", "\x04\x01a", strings.Repeat("x", 127), strings.Repeat("y", 128), strings.Repeat("z", 200), strings.Repeat("w", 255), strings.Repeat("v", 256), strings.Repeat("u", 70000)}
	return a
}

func c16run(c *Ctx) {
	// --- ConvertString on every string of length <= L over the alphabet
	L := 4
	if c.Thorough() {
		L = 7
	}
	var rec func(prefix []byte)
	rec = func(prefix []byte) {
		if c.Mine() {
			c.Count("inputs", 1)
			c.Count("ConvertString.strings", 1)
			c16convert(c, string(prefix))
		}
		if len(prefix) == L {
			return
		}
		for _, b := range c16alpha {
			rec(append(append([]byte(nil), prefix...), b))
		}
	}
	rec(nil)
	// variadic lists of <=3 short strings (length <=2)
	var shorts []string
	var rec2 func(prefix []byte)
	rec2 = func(prefix []byte) {
		shorts = append(shorts, string(prefix))
		if len(prefix) == 2 {
			return
		}
		for _, b := range []byte{0x00, 0x04, 0x1b, 0x81, 0xff} {
			rec2(append(append([]byte(nil), prefix...), b))
		}
	}
	rec2(nil)
	for _, a := range shorts {
		for _, b := range shorts {
			if c.Mine() {
				c.Count("inputs", 1)
				c.Count("ConvertString.lists", 1)
				c16convert(c, a, b)
				c16convert(c, "\x04\x01a", a, b)
			}
		}
	}
	if c.Mine() {
		c.Count("inputs", 1)
		c16convert(c)
	}
	// inversion
	for _, s := range stringAlphabet(c.Thorough()) {
		for _, tag := range []int{4, 27} {
			if c.Mine() {
				c.Count("inputs", 1)
				c.Count("ConvertString.inversion", 1)
				c16invert(c, s, tag)
			}
		}
	}
	// all strings <=3 over a different alphabet wrapped: inversion
	var rec3 func(prefix []byte)
	rec3 = func(prefix []byte) {
		if c.Mine() {
			c.Count("inputs", 1)
			c.Count("ConvertString.inversion", 1)
			c16invert(c, string(prefix), 4)
		}
		if len(prefix) == 3 {
			return
		}
		for _, b := range []byte{0x00, 0x04, 0x30, 0x61, 0x80, 0xff} {
			rec3(append(append([]byte(nil), prefix...), b))
		}
	}
	rec3(nil)

	// --- SID round trip: all (revision, authority) pairs
	for rev := 0; rev < 256; rev++ {
		if !c.Mine() {
			continue
		}
		step := 1
		if !c.Thorough() && false {
			step = 1
		}
		for a := 0; a < 65536; a += step {
			c.Count("inputs", 1)
			c.Count("SID.pairs", 1)
			c.Count("calls", 2)
			var b []byte
			var s string
			var e1, e2 error
			k := try(func() {
				b, e1 = gldap.SIDBytes(uint8(rev), uint16(a))
				if e1 == nil {
					s, e2 = gldap.SIDBytesToString(b)
				}
			})
			want := fmt.Sprintf("S-%d-%d", rev, a)
			switch {
			case k != "":
				c.Report(k, fmt.Sprintf("SID round trip (%d,%d) panicked", rev, a), c16rep{Fn: "SIDBytes", Args: []string{fmt.Sprint(rev), fmt.Sprint(a)}})
			case e1 != nil || e2 != nil || s != want:
				c.Outcome("SID:roundtrip-fails")
				c.Report("SIDBytesToString(SIDBytes(r,a)) != S-r-a", fmt.Sprintf("r=%d a=%d bytes=%x got %q err %v %v", rev, a, b, s, e1, e2), c16rep{Fn: "SIDBytes", Args: []string{fmt.Sprint(rev), fmt.Sprint(a)}})
			default:
				if a == 0 {
					c.Outcome("SID:roundtrip-ok")
				}
			}
		}
	}
	// --- SIDBytesToString on arbitrary slices
	sidAlpha := []byte{0x00, 0x01, 0x05, 0xff}
	SL := 8
	if c.Thorough() {
		SL = 12
	}
	var rec4 func(prefix []byte)
	rec4 = func(prefix []byte) {
		if c.Mine() {
			c16sid(c, prefix)
		}
		if len(prefix) == SL {
			return
		}
		for _, b := range sidAlpha {
			rec4(append(append([]byte(nil), prefix...), b))
		}
	}
	rec4(nil)
	cnts := []int{0, 1, 2, 3, 15, 63, 64, 65, 127, 128, 255}
	if c.Thorough() {
		cnts = nil
		for i := 0; i < 256; i++ {
			cnts = append(cnts, i)
		}
	}
	for _, cnt := range cnts {
		full := append([]byte{1, byte(cnt), 0, 0, 0, 0, 0, 5}, make([]byte, 4*cnt)...)
		for i := range full[8:] {
			full[8+i] = byte(i*37 + 1)
		}
		for l := 0; l <= len(full)+4; l++ {
			if !c.Mine() {
				continue
			}
			var b []byte
			if l <= len(full) {
				b = full[:l]
			} else {
				b = append(append([]byte(nil), full...), make([]byte, l-len(full))...)
			}
			got := c16sid(c, b)
			if l == len(full) {
				// exact SID: reference formatting
				want := "S-1-5"
				for j := 0; j < cnt; j++ {
					o := 8 + 4*j
					want += fmt.Sprintf("-%d", uint32(full[o])|uint32(full[o+1])<<8|uint32(full[o+2])<<16|uint32(full[o+3])<<24)
				}
				if got != want {
					c.Report("SIDBytesToString formats a well-formed SID wrongly", fmt.Sprintf("bytes=%x got %q want %q", b, got, want), c16rep{Fn: "SIDBytesToString", Args: []string{hex.EncodeToString(b)}})
				}
			}
		}
	}

	// --- NewEntry / EntryAttribute
	names := []string{"b", "a", "C", "", "c", "cn", "CN"}
	vals := [][]string{nil, {}, {"x"}, {"x", "y"}, {"", "\x00"}}
	entryVals := [][]string{nil, {"x", "y"}}
	// all maps over subsets of names with each value list
	for mask := 0; mask < 1<<len(names); mask++ {
		var rec5 func(i int, m map[string][]string)
		rec5 = func(i int, m map[string][]string) {
			if i == len(names) {
				if c.Mine() {
					c16entry(c, m)
				}
				return
			}
			if mask&(1<<i) == 0 {
				rec5(i+1, m)
				return
			}
			for _, v := range entryVals {
				m2 := map[string][]string{}
				for k, x := range m {
					m2[k] = x
				}
				m2[names[i]] = v
				rec5(i+1, m2)
			}
		}
		rec5(0, map[string][]string{})
	}
	if c.Mine() {
		c16entry(c, nil)
	}
	// op sequences on EntryAttribute
	addvals := [][]string{nil, {}, {"p"}, {"p", "q"}, {""}}
	for _, v0 := range vals {
		for _, s1 := range addvals {
			for _, s2 := range addvals {
				for _, s3 := range addvals {
					if !c.Mine() {
						continue
					}
					c.Count("inputs", 1)
					c.Count("EntryAttribute.sequences", 1)
					c.Count("calls", 4)
					var a *gldap.EntryAttribute
					k := try(func() {
						a = gldap.NewEntryAttribute("n", append([]string(nil), v0...))
						a.AddValue(s1...)
						a.AddValue(s2...)
						a.AddValue(s3...)
					})
					rep := c16rep{Fn: "EntryAttribute", Note: fmt.Sprintf("New(%q) Add(%q) Add(%q) Add(%q)", v0, s1, s2, s3)}
					if k != "" {
						c.Report(k, rep.Note, rep)
						continue
					}
					ok := len(a.Values) == len(a.ByteValues) && len(a.Values) == len(v0)+len(s1)+len(s2)+len(s3)
					if ok {
						for i := range a.Values {
							if a.Values[i] != string(a.ByteValues[i]) {
								ok = false
							}
						}
					}
					if !ok {
						c.Report("EntryAttribute string and byte values diverge", fmt.Sprintf("%s -> Values=%q ByteValues=%q", rep.Note, a.Values, a.ByteValues), rep)
					} else {
						c.Outcome(fmt.Sprintf("EntryAttribute:consistent:%d", len(a.Values)))
					}
				}
			}
		}
	}

	// --- constructors with every subset and order of options
	c16responses(c)
	c16optionSlices(c)
	c16controls(c)
	c16mux(c)
}

func c16sid(c *Ctx, b []byte) string {
	c.Count("inputs", 1)
	c.Count("SID.slices", 1)
	c.Count("calls", 1)
	var s string
	var err error
	k := try(func() { s, err = gldap.SIDBytesToString(b) })
	switch {
	case k != "":
		c.Outcome("SIDBytesToString:panic")
		c.Report(k, fmt.Sprintf("SIDBytesToString(%x) panicked", b), c16rep{Fn: "SIDBytesToString", Args: []string{hex.EncodeToString(b)}})
	case err != nil:
		c.Outcome("SIDBytesToString:error")
	default:
		c.Outcome("SIDBytesToString:ok")
		// reference: revision, count, 6 bytes of authority, count x 4 bytes of sub-authorities; fewer bytes
		// than that is no SID (what follows a complete SID is ignored by the function, and by this reference)
		if len(b) < 8 || len(b) < 8+4*int(b[1]) {
			c.Report("SIDBytesToString accepts a truncated SID (invalid input must yield an error)", fmt.Sprintf("%x (%d bytes, sub-authority count %d) -> %q", b, len(b), func() int {
				if len(b) > 1 {
					return int(b[1])
				}
				return -1
			}(), s), c16rep{Fn: "SIDBytesToString", Args: []string{hex.EncodeToString(b)}})
		} else {
			want := fmt.Sprintf("S-%d-%d", b[0], uint64(b[2])<<40|uint64(b[3])<<32|uint64(b[4])<<24|uint64(b[5])<<16|uint64(b[6])<<8|uint64(b[7]))
			for j := 0; j < int(b[1]); j++ {
				o := 8 + 4*j
				want += fmt.Sprintf("-%d", uint32(b[o])|uint32(b[o+1])<<8|uint32(b[o+2])<<16|uint32(b[o+3])<<24)
			}
			if s != want {
				c.Report("SIDBytesToString formats a well-formed SID wrongly", fmt.Sprintf("bytes=%x got %q want %q", b, s, want), c16rep{Fn: "SIDBytesToString", Args: []string{hex.EncodeToString(b)}})
			}
		}
		if !strings.HasPrefix(s, "S-") {
			c.Report("SIDBytesToString returned a malformed string", fmt.Sprintf("%x -> %q", b, s), c16rep{Fn: "SIDBytesToString", Args: []string{hex.EncodeToString(b)}})
		}
	}
	return s
}

func c16entry(c *Ctx, m map[string][]string) {
	c.Count("inputs", 1)
	c.Count("NewEntry.maps", 1)
	c.Count("calls", 2)
	var e1, e2 *gldap.Entry
	k := try(func() {
		e1 = gldap.NewEntry("cn=x", m)
		// Go randomises map iteration: repeat so that an order that depends on it shows
		for i := 0; i < 12; i++ {
			e2 = gldap.NewEntry("cn=x", m)
			if len(e2.Attributes) != len(e1.Attributes) {
				break
			}
			same := true
			for j := range e1.Attributes {
				if e1.Attributes[j].Name != e2.Attributes[j].Name {
					same = false
				}
			}
			if !same {
				break
			}
		}
	})
	rep := c16rep{Fn: "NewEntry", Note: fmt.Sprintf("%q", m)}
	if k != "" {
		c.Report(k, rep.Note, rep)
		return
	}
	var n1, n2 []string
	for _, a := range e1.Attributes {
		n1 = append(n1, a.Name)
	}
	for _, a := range e2.Attributes {
		n2 = append(n2, a.Name)
	}
	var want []string
	for k := range m {
		want = append(want, k)
	}
	sort.Strings(want)
	if !reflect.DeepEqual(n1, n2) || !reflect.DeepEqual(n1, want) || e1.DN != "cn=x" {
		c.Report("NewEntry attribute order is not the sorted name order on every call", fmt.Sprintf("map=%q first=%q second=%q", m, n1, n2), rep)
		return
	}
	for _, a := range e1.Attributes {
		if len(a.Values) != len(a.ByteValues) || !reflect.DeepEqual(append([]string{}, a.Values...), append([]string{}, m[a.Name]...)) {
			c.Report("NewEntry attribute values differ from the map", fmt.Sprintf("map=%q attr=%q values=%q", m, a.Name, a.Values), rep)
			return
		}
		for i := range a.Values {
			if a.Values[i] != string(a.ByteValues[i]) {
				c.Report("EntryAttribute string and byte values diverge", fmt.Sprintf("map=%q attr=%q", m, a.Name), rep)
				return
			}
		}
	}
	c.Outcome(fmt.Sprintf("NewEntry:sorted:%d", len(want)))
}

// permutations of every subset of idx 0..n-1
func subsetsInOrder(n int, f func(order []int)) {
	var rec func(cur []int, used int)
	rec = func(cur []int, used int) {
		f(cur)
		for i := 0; i < n; i++ {
			if used&(1<<i) == 0 {
				rec(append(append([]int(nil), cur...), i), used|1<<i)
			}
		}
	}
	rec(nil, 0)
}

var canonReqs = map[string]*codec.Req{}

func canonReq(op string) *codec.Req {
	switch op {
	case "bind":
		return &codec.Req{Op: "bind", MsgID: 5, Version: 3, DN: "cn=a", Password: "p"}
	case "search":
		return &codec.Req{Op: "search", MsgID: 6, DN: "dc=a", Scope: 2, Filter: "(cn=x)", FilterBER: codec.Cons(codec.Context, 3, codec.Octet("cn"), codec.Octet("x")).Bytes()}
	case "modify":
		return &codec.Req{Op: "modify", MsgID: 7, DN: "cn=a", Changes: []codec.Change{{Op: 0, Type: "mail", Vals: []string{"v"}}}}
	case "add":
		return &codec.Req{Op: "add", MsgID: 8, DN: "cn=a", Attrs2: []codec.Attr{{Type: "mail", Vals: []string{"v"}}}}
	case "delete":
		return &codec.Req{Op: "delete", MsgID: 9, DN: "cn=a"}
	case "extended":
		return &codec.Req{Op: "extended", MsgID: 10, Name: codec.OIDWhoAmI}
	case "unbind":
		return &codec.Req{Op: "unbind", MsgID: 11}
	}
	panic(op)
}

var allOps = []string{"bind", "search", "modify", "add", "delete", "extended", "unbind"}

func mustDecode(op string) *gldap.Request {
	r, err := decode(canonReq(op).Bytes(), 1, false)
	if err != nil {
		panic(fmt.Sprintf("harness: canonical %s request does not decode: %v", op, err))
	}
	return r
}

func c16responses(c *Ctx) {
	optNames := []string{"WithResponseCode(0)", "WithDiagnosticMessage", "WithMatchedDN", "WithApplicationCode(9)", "WithAttributes", "nil"}
	mkopt := func(i int) gldap.Option {
		switch i {
		case 0:
			return gldap.WithResponseCode(0)
		case 1:
			return gldap.WithDiagnosticMessage("d")
		case 2:
			return gldap.WithMatchedDN("m")
		case 3:
			return gldap.WithApplicationCode(9)
		case 4:
			return gldap.WithAttributes(map[string][]string{"a": {"v"}})
		}
		return nil
	}
	ctors := []string{"NewResponse", "NewBindResponse", "NewSearchDoneResponse", "NewSearchResponseEntry", "NewExtendedResponse", "NewModifyResponse"}
	for _, op := range allOps {
		req := mustDecode(op)
		for _, ctor := range ctors {
			subsetsInOrder(len(optNames), func(order []int) {
				if !c.Mine() {
					return
				}
				c.Count("inputs", 1)
				c.Count("Response.optionOrders", 1)
				c.Count("calls", 1)
				var opts []gldap.Option
				var names []string
				for _, i := range order {
					opts = append(opts, mkopt(i))
					names = append(names, optNames[i])
				}
				if c.n%4001 == 7 {
					c.Sample(map[string]interface{}{"fn": ctor, "request": op, "options": names})
				}
				var resp gldap.Response
				k := try(func() {
					switch ctor {
					case "NewResponse":
						resp = req.NewResponse(opts...)
					case "NewBindResponse":
						resp = req.NewBindResponse(opts...)
					case "NewSearchDoneResponse":
						resp = req.NewSearchDoneResponse(opts...)
					case "NewSearchResponseEntry":
						resp = req.NewSearchResponseEntry("cn=e", opts...)
					case "NewExtendedResponse":
						resp = req.NewExtendedResponse(opts...)
					case "NewModifyResponse":
						resp = req.NewModifyResponse(opts...)
					}
				})
				rep := c16rep{Fn: ctor, Note: fmt.Sprintf("request=%s options=%v", op, names)}
				if k != "" {
					c.Outcome(ctor + ":panic")
					c.Report(k, ctor+" panicked: "+rep.Note, rep)
					return
				}
				if resp == nil || reflect.ValueOf(resp).IsNil() {
					c.Report(ctor+" returned nil", rep.Note, rep)
					return
				}
				c.Outcome(ctor + ":ok")
			})
		}
	}
}

// c16optionSlices: the constructors are handed prefixes of one options slice with spare capacity (the natural
// way to walk through "any subset of their options"); afterwards the slice must still hold the options the
// caller put there - checked by what a constructor makes of them.
func c16optionSlices(c *Ctx) {
	type ctorT struct {
		name string
		call func(req *gldap.Request, opts ...gldap.Option) gldap.Response
	}
	ctors := []ctorT{
		{"NewResponse", func(r *gldap.Request, o ...gldap.Option) gldap.Response { return r.NewResponse(o...) }},
		{"NewBindResponse", func(r *gldap.Request, o ...gldap.Option) gldap.Response { return r.NewBindResponse(o...) }},
		{"NewSearchDoneResponse", func(r *gldap.Request, o ...gldap.Option) gldap.Response { return r.NewSearchDoneResponse(o...) }},
		{"NewSearchResponseEntry", func(r *gldap.Request, o ...gldap.Option) gldap.Response {
			return r.NewSearchResponseEntry("cn=e", o...)
		}},
		{"NewExtendedResponse", func(r *gldap.Request, o ...gldap.Option) gldap.Response { return r.NewExtendedResponse(o...) }},
		{"NewModifyResponse", func(r *gldap.Request, o ...gldap.Option) gldap.Response { return r.NewModifyResponse(o...) }},
	}
	req := mustDecode("search")
	probe := func(opts []gldap.Option) string {
		resp := req.NewResponse(opts...)
		r, err := codec.ParseResponse(gldap.VPacketBytes(resp))
		if err != nil {
			return "unparsable: " + err.Error()
		}
		return fmt.Sprintf("tag=%d code=%d matched=%q diag=%q", r.Tag, r.Code, r.Matched, r.Diag)
	}
	mk := func() []gldap.Option {
		return []gldap.Option{gldap.WithResponseCode(gldap.ResultSuccess), gldap.WithDiagnosticMessage("done"), gldap.WithMatchedDN("cn=m")}
	}
	want := probe(mk())
	for _, ct := range ctors {
		for _, spare := range []int{0, 5} {
			if !c.Mine() {
				continue
			}
			c.Count("inputs", 1)
			c.Count("Response.optionSlices", 1)
			all := make([]gldap.Option, 0, 3+spare)
			all = append(all, mk()...)
			rep := c16rep{Fn: ct.name, Note: fmt.Sprintf("prefixes of one options slice (len 3, cap %d)", cap(all))}
			k := try(func() {
				for n := 0; n <= len(all); n++ {
					c.Count("calls", 1)
					_ = ct.call(req, all[:n]...)
				}
			})
			if k != "" {
				c.Report(k, ct.name+" panicked: "+rep.Note, rep)
				continue
			}
			if got := probe(all); got != want {
				c.Outcome(ct.name + ":clobbers-options")
				c.Report(ct.name+" writes into the options slice of its caller", fmt.Sprintf("%s: NewResponse(opts...) afterwards gives %s, before %s", rep.Note, got, want), rep)
				continue
			}
			c.Outcome(ct.name + ":options-slice-intact")
		}
	}
}

func c16controls(c *Ctx) {
	type optv struct {
		name string
		mk   func() gldap.Option
	}
	var pool []optv
	for _, v := range []uint{0, 1, 8, 9, 127, 128, 255, 256, 264, 65536, 1 << 31, 1<<32 + 3, 1 << 63} {
		v := v
		pool = append(pool,
			optv{fmt.Sprintf("WithGraceAuthNsRemaining(%d)", v), func() gldap.Option { return gldap.WithGraceAuthNsRemaining(v) }},
			optv{fmt.Sprintf("WithSecondsBeforeExpiration(%d)", v), func() gldap.Option { return gldap.WithSecondsBeforeExpiration(v) }},
			optv{fmt.Sprintf("WithErrorCode(%d)", v), func() gldap.Option { return gldap.WithErrorCode(v) }})
	}
	pool = append(pool,
		optv{"WithCriticality(true)", func() gldap.Option { return gldap.WithCriticality(true) }},
		optv{"WithCriticality(false)", func() gldap.Option { return gldap.WithCriticality(false) }},
		optv{"WithControlValue(\"\")", func() gldap.Option { return gldap.WithControlValue("") }},
		optv{"WithControlValue(bin)", func() gldap.Option { return gldap.WithControlValue("\x00\xff") }},
		optv{"nil", func() gldap.Option { return nil }},
		optv{"WithResponseCode(1)", func() gldap.Option { return gldap.WithResponseCode(1) }},
	)
	ctors := []string{"NewControlString(oid)", "NewControlString(\"\")", "NewControlManageDsaIT", "NewControlMicrosoftNotification", "NewControlMicrosoftServerLinkTTL", "NewControlMicrosoftShowDeleted", "NewControlBeheraPasswordPolicy", "NewControlPaging(0)", "NewControlPaging(max)"}
	call := func(ctor string, opts []gldap.Option) (gldap.Control, error) {
		switch ctor {
		case "NewControlString(oid)":
			return wrapCtl(gldap.NewControlString("1.2.3", opts...))
		case "NewControlString(\"\")":
			return wrapCtl(gldap.NewControlString("", opts...))
		case "NewControlManageDsaIT":
			return wrapCtl(gldap.NewControlManageDsaIT(opts...))
		case "NewControlMicrosoftNotification":
			return wrapCtl(gldap.NewControlMicrosoftNotification(opts...))
		case "NewControlMicrosoftServerLinkTTL":
			return wrapCtl(gldap.NewControlMicrosoftServerLinkTTL(opts...))
		case "NewControlMicrosoftShowDeleted":
			return wrapCtl(gldap.NewControlMicrosoftShowDeleted(opts...))
		case "NewControlBeheraPasswordPolicy":
			return wrapCtl(gldap.NewControlBeheraPasswordPolicy(opts...))
		case "NewControlPaging(0)":
			return wrapCtl(gldap.NewControlPaging(0, opts...))
		case "NewControlPaging(max)":
			return wrapCtl(gldap.NewControlPaging(1<<32-1, opts...))
		}
		panic(ctor)
	}
	// every ordered selection of <=2 options from the pool, plus every triple of distinct kinds in fixed order
	var sels [][]int
	sels = append(sels, nil)
	for i := range pool {
		sels = append(sels, []int{i})
		for j := range pool {
			if i != j {
				sels = append(sels, []int{i, j})
			}
		}
	}
	for _, ctor := range ctors {
		for _, sel := range sels {
			if !c.Mine() {
				continue
			}
			c.Count("inputs", 1)
			c.Count("Control.optionOrders", 1)
			c.Count("calls", 1)
			var opts []gldap.Option
			var names []string
			for _, i := range sel {
				opts = append(opts, pool[i].mk())
				names = append(names, pool[i].name)
			}
			var ctl gldap.Control
			var err error
			k := try(func() {
				ctl, err = call(ctor, opts)
				if err == nil && ctl != nil {
					_ = ctl.GetControlType()
				}
			})
			rep := c16rep{Fn: ctor, Note: fmt.Sprintf("options=%v", names)}
			if ctor == "NewControlBeheraPasswordPolicy" && k == "" {
				c16behera(c, ctor, names, ctl, err, rep)
			}
			switch {
			case k != "":
				c.Report(k, ctor+" panicked: "+rep.Note, rep)
			case err != nil:
				c.Outcome(ctor + ":error")
				if ctor != "NewControlString(\"\")" && ctor != "NewControlBeheraPasswordPolicy" {
					c.Report(ctor+" rejects valid arguments", fmt.Sprintf("%s: %v", rep.Note, err), rep)
				}
			default:
				c.Outcome(ctor + ":ok")
				if ctor == "NewControlString(\"\")" {
					c.Report("NewControlString accepts an empty control type", rep.Note, rep)
				}
			}
		}
	}
}

func wrapCtl(c interface{}, err error) (gldap.Control, error) {
	if err != nil {
		return nil, err
	}
	if c == nil || reflect.ValueOf(c).IsNil() {
		return nil, nil
	}
	return c.(gldap.Control), nil
}

func c16mux(c *Ctx) {
	optNames := []string{"WithLabel", "WithBaseDN", "WithFilter", "WithScope(2)", "nil", "WithResponseCode(1)"}
	mkopt := func(i int) gldap.Option {
		switch i {
		case 0:
			return gldap.WithLabel("l")
		case 1:
			return gldap.WithBaseDN("dc=a")
		case 2:
			return gldap.WithFilter("(cn=x)")
		case 3:
			return gldap.WithScope(2)
		case 4:
			return nil
		}
		return gldap.WithResponseCode(1)
	}
	methods := []string{"Bind", "Unbind", "Search", "ExtendedOperation", "Modify", "Add", "Delete", "DefaultRoute"}
	h := func(*gldap.ResponseWriter, *gldap.Request) {}
	// receivers: a Mux from NewMux and the zero value of the exported type (what NewServer itself installs)
	for _, recv := range []string{"NewMux()", "&Mux{}", "new(Mux)"} {
		for _, m := range methods {
			for _, withH := range []bool{true, false} {
				subsetsInOrder(len(optNames), func(order []int) {
					if len(order) > 3 || !c.Mine() {
						return
					}
					if recv != "NewMux()" && len(order) > 1 {
						return
					}
					c.Count("inputs", 1)
					c.Count("Mux.registrations", 1)
					c.Count("calls", 1)
					var opts []gldap.Option
					var names []string
					for _, i := range order {
						opts = append(opts, mkopt(i))
						names = append(names, optNames[i])
					}
					var fn gldap.HandlerFunc
					if withH {
						fn = h
					}
					var err error
					k := try(func() {
						var mux *gldap.Mux
						switch recv {
						case "&Mux{}":
							mux = &gldap.Mux{}
						case "new(Mux)":
							mux = new(gldap.Mux)
						default:
							m0, e := gldap.NewMux()
							if e != nil {
								err = e
								return
							}
							mux = m0
						}
						switch m {
						case "Bind":
							err = mux.Bind(fn, opts...)
						case "Unbind":
							err = mux.Unbind(fn, opts...)
						case "Search":
							err = mux.Search(fn, opts...)
						case "ExtendedOperation":
							err = mux.ExtendedOperation(fn, gldap.ExtendedOperationWhoAmI, opts...)
						case "Modify":
							err = mux.Modify(fn, opts...)
						case "Add":
							err = mux.Add(fn, opts...)
						case "Delete":
							err = mux.Delete(fn, opts...)
						case "DefaultRoute":
							err = mux.DefaultRoute(fn, opts...)
						}
					})
					rep := c16rep{Fn: "Mux." + m, Note: fmt.Sprintf("receiver=%s handler=%v options=%v", recv, withH, names)}
					switch {
					case k != "":
						c.Report(k, "Mux."+m+" panicked: "+rep.Note, rep)
					case withH && err != nil:
						c.Report("Mux."+m+" rejects a valid handler", fmt.Sprintf("%s: %v", rep.Note, err), rep)
					case !withH && err == nil:
						c.Report("Mux."+m+" accepts a nil handler", rep.Note, rep)
					default:
						c.Outcome(fmt.Sprintf("Mux.%s:handler=%v", m, withH))
					}
				})
			}
		}
	}
}

func c16replay(payload json.RawMessage, c *Ctx) {
	var rep c16rep
	json.Unmarshal(payload, &rep)
	switch rep.Fn {
	case "ConvertString":
		var args []string
		for _, h := range rep.Args {
			b, _ := hex.DecodeString(h)
			args = append(args, string(b))
		}
		if rep.Note == "inversion" {
			// unwrap and re-run inversion
			n, _, err := codec.ParseOne([]byte(args[0]))
			if err == nil {
				c16invert(c, string(n.Content), n.Tag)
				return
			}
		}
		c16convert(c, args...)
	case "SIDBytesToString":
		b, _ := hex.DecodeString(rep.Args[0])
		c16sid(c, b)
	default:
		// constructor families are cheap: re-run the whole family on one shard
		c.NShards, c.Shard = 1, 0
		c16run(c)
	}
}

// c16behera compares NewControlBeheraPasswordPolicy with its documented contract.
func c16behera(c *Ctx, ctor string, names []string, ctl gldap.Control, err error, rep c16rep) {
	// reference: the last option of each kind wins; at most one of grace / expire / error may be set,
	// an error code must be one of the nine defined ones (0..8)
	grace, expire, code := -1, -1, -1
	for _, n := range names {
		var v uint
		switch {
		case strings.HasPrefix(n, "WithGraceAuthNsRemaining("):
			fmt.Sscanf(n, "WithGraceAuthNsRemaining(%d)", &v)
			grace = int(v)
		case strings.HasPrefix(n, "WithSecondsBeforeExpiration("):
			fmt.Sscanf(n, "WithSecondsBeforeExpiration(%d)", &v)
			expire = int(v)
		case strings.HasPrefix(n, "WithErrorCode("):
			fmt.Sscanf(n, "WithErrorCode(%d)", &v)
			code = int(v)
		}
	}
	set := 0
	for _, x := range []int{grace, expire, code} {
		if x != -1 {
			set++
		}
	}
	if grace < -1 || expire < -1 {
		// a count beyond the int range: nothing documents what it should become, so nothing is required
		// of it here beyond "no panic" (checked below)
		return
	}
	valid := set <= 1 && (code == -1 || code >= 0 && code <= 8)
	b, _ := ctl.(*gldap.ControlBeheraPasswordPolicy)
	switch {
	case valid && (err != nil || b == nil):
		c.Report(ctor+" rejects valid arguments", fmt.Sprintf("%s: %v", rep.Note, err), rep)
	case !valid && err == nil:
		what := "an error code outside 0..8"
		if set > 1 {
			what = "more than one of grace / expire / error code"
		}
		c.Report(ctor+" accepts invalid arguments ("+what+") without an error", rep.Note, rep)
	case valid:
		gc, gs := b.ErrorCode()
		ws := ""
		if code != -1 {
			ws = gldap.BeheraPasswordPolicyErrorMap[int8(code)]
		}
		if b.Grace() != grace || b.Expire() != expire || gc != code || gs != ws {
			c.Report(ctor+" returns a control with other values than the options gave", fmt.Sprintf("%s: grace=%d expire=%d error=%d %q", rep.Note, b.Grace(), b.Expire(), gc, gs), rep)
		}
	}
}
