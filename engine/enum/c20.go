package main

import (
	"crypto/tls"
	"crypto/x509"
	"encoding/json"
	"fmt"
	"sort"
	"strings"
	"time"

	"github.com/go-ldap/ldap/v3"
	"github.com/jimlambrt/gldap"
	"github.com/jimlambrt/gldap/testdirectory"
	"verif/codec"
	"verif/ev"
)

// C19 / C20 — the test directory on the real stack: bind predicate and store behaviour, explored over
// operation histories against a reference model.

func init() {
	for _, id := range []string{"C19", "C20"} {
		id := id
		checks[id] = &Check{
			Shards: func(tier string) int { return 16 },
			Run:    func(c *Ctx) { dirRun(c, id) },
			Finalize: func(m *shardOut, r *ev.Run) {
				r.Cov["states"] = m.Counts["histories"]
				r.Cov["transitions"] = m.Counts["operations"]
				r.Cov["traces_validated_against_impl"] = m.Counts["histories"]
				r.Cov["evaluations"] = m.Counts["ldap_calls"]
				r.Cov["distinct_nontrivial"] = len(m.Outc)
				r.Cov["rule"] = "state = operation history (Add / Modify with one or two changes / Delete / Bind / SetUsers / SetGroups / SetControls / SetAllowAnonymousBind over a pool of 6 user DNs incl. a case variant, a non-ASCII one and one with an RFC 4514 hex escape, 2 group DNs, 4 user sets incl. users without a usable password and entries sharing one value slice (testdirectory.NewUsers with WithMembersOf)) of length <= depth, breadth-first; every history is executed on a live testdirectory.Directory through a real go-ldap client, every step's result code is compared with a reference store and after the last step every pool DN is searched in both supported forms and every pool user is bound with its right password, a wrong one and the empty one. distinct_nontrivial = distinct (operation kinds, outcome) classes"
				r.Cov["samples"] = m.Samp
				r.Cov["per_family"] = m.Counts
				r.Cov["depth_completed"] = m.Counts["depth_completed_min"]
				r.Cov["exhaustive"] = !m.CapHit
				attachSecondary(r)
				r.Assume = []string{
					"pool DNs are pairwise non-substrings and free of ()*| (the property's precondition)",
					"values stored through Modify keep their BER octet-string wrapping (pinned by the repository's own suite): a returned value counts as v when it is v or BER(v)",
					"the password attribute is not modified through LDAP Modify (the wrapped form would change what 'first password value' means)",
					"a go-ldap call that gets no answer within 15 s is reported as 'no response'; the directory is then replaced, and after 6 such events a shard stops exploring",
				}
			},
			Replay: func(p json.RawMessage, c *Ctx) {
				var h []dirOp
				json.Unmarshal(p, &h)
				env := newDirEnv("plain")
				defer env.close()
				runHistory(c, env, id, h, true)
			},
		}
	}
}

// the base DNs of the directory under test: the library's defaults, except in the custom-base pass
var userBase = testdirectory.DefaultUserDN
var groupBase = testdirectory.DefaultGroupDN

// setBases switches the harness (pools, alphabets, reference sets) to other base DNs; directories started
// afterwards are configured with them through WithDefaults.
func setBases(u, g string) {
	userBase, groupBase = u, g
	poolUsers = []string{udn("alice"), udn("bob"), udn("eve"), udn("Alice"), udn("zo\u00eb"), udn(`doe\2Cjane`)}
	poolGroups = []string{gdn("admin"), gdn("dev")}
}

func udn(n string) string { return "cn=" + n + "," + userBase }
func gdn(n string) string { return "cn=" + n + "," + groupBase }

type refEntry struct {
	DN    string
	Attrs []codec.Attr // ordered
}

type refStore struct {
	Users, Groups []*refEntry
	Anon          bool
}

func (s *refStore) findUser(dn string) int {
	for i, e := range s.Users {
		if e.DN == dn {
			return i
		}
	}
	return -1
}
func (s *refStore) findGroup(dn string) int {
	for i, e := range s.Groups {
		if e.DN == dn {
			return i
		}
	}
	return -1
}

func (e *refEntry) attr(name string) int {
	idx := -1
	for i, a := range e.Attrs {
		if a.Type == name {
			idx = i
		}
	}
	return idx
}

type dirOp struct {
	Kind    string         `json:"kind"` // add delete modify bind setusers setgroups setanon
	DN      string         `json:"dn,omitempty"`
	Attrs   []codec.Attr   `json:"attrs,omitempty"`
	Changes []codec.Change `json:"changes,omitempty"`
	PW      string         `json:"pw,omitempty"`
	Set     int            `json:"set,omitempty"`
	Flag    bool           `json:"flag,omitempty"`
}

func (o dirOp) String() string {
	switch o.Kind {
	case "add":
		return fmt.Sprintf("Add(%s,%d attrs)", short(o.DN), len(o.Attrs))
	case "delete":
		return "Delete(" + short(o.DN) + ")"
	case "modify":
		s := "Modify(" + short(o.DN)
		for _, ch := range o.Changes {
			s += fmt.Sprintf(",%s %s", []string{"add", "delete", "replace"}[ch.Op], ch.Type)
		}
		return s + ")"
	case "bind":
		return fmt.Sprintf("Bind(%s,%q)", short(o.DN), o.PW)
	case "setusers":
		return fmt.Sprintf("SetUsers(#%d)", o.Set)
	case "setgroups":
		return fmt.Sprintf("SetGroups(#%d)", o.Set)
	case "setcontrols":
		return fmt.Sprintf("SetControls(%d controls)", o.Set)
	}
	return fmt.Sprintf("SetAllowAnonymousBind(%v)", o.Flag)
}

func short(dn string) string {
	if i := strings.IndexByte(dn, ','); i > 0 {
		return dn[:i]
	}
	return dn
}

func userSet(n int) []*refEntry {
	mk := func(name string) *refEntry {
		return &refEntry{DN: udn(name), Attrs: []codec.Attr{{Type: "email", Vals: []string{name + "@example.com"}}, {Type: "name", Vals: []string{name}}, {Type: "password", Vals: []string{"pw-" + name}}}}
	}
	switch n {
	case 0:
		return []*refEntry{mk("alice"), mk("bob")}
	case 1:
		return []*refEntry{}
	case 2:
		// users without a usable password: no password attribute, a password attribute without values, an empty password
		return []*refEntry{mk("eve"),
			{DN: udn("nopw"), Attrs: []codec.Attr{{Type: "name", Vals: []string{"x"}}}},
			{DN: udn("zerovals"), Attrs: []codec.Attr{{Type: "name", Vals: []string{"z"}}, {Type: "password", Vals: []string{}}}},
			{DN: udn("emptystr"), Attrs: []codec.Attr{{Type: "name", Vals: []string{"e"}}, {Type: "password", Vals: []string{""}}}},
			// built as a struct literal (see liveUsers): only the string values are set
			{DN: udn("literal"), Attrs: []codec.Attr{{Type: "password", Vals: []string{"pw-literal", "second"}}}}}
	case 4:
		// duplicate DNs (only used by the bind matrix of C19): any of the entries with the DN can match
		dup := mk("alice")
		dup.Attrs[2].Vals = []string{"pw-second"}
		nopw := &refEntry{DN: udn("bob"), Attrs: []codec.Attr{{Type: "name", Vals: []string{"b"}}}}
		return []*refEntry{nopw, mk("alice"), mk("eve"), dup, mk("bob")}
	default:
		// what testdirectory.NewUsers(names, WithMembersOf("admin", "staff")) builds (see sharedUsers): every
		// entry is handed the same memberOf slice
		var out []*refEntry
		for _, n := range sharedNames {
			out = append(out, &refEntry{DN: udn(n), Attrs: []codec.Attr{{Type: "email", Vals: []string{n + "@example.com"}}, {Type: "memberOf", Vals: []string{"admin", "staff"}}, {Type: "name", Vals: []string{n}}, {Type: "password", Vals: []string{"password"}}}})
		}
		return out
	}
}

var sharedNames = []string{"alice", "bob", "eve"}

// liveUsers builds the gldap entries of user set n. Set 3 comes from the library's own helper, whose entries
// share one value slice for memberOf.
func liveUsers(t testdirectory.TestingT, n int) []*gldap.Entry {
	if n == 3 {
		return testdirectory.NewUsers(t, sharedNames, testdirectory.WithMembersOf(t, "admin", "staff"), testdirectory.WithDefaults(t, &testdirectory.Defaults{UserDN: userBase}))
	}
	es := toEntries(userSet(n))
	if n == 2 {
		// the last user of set 2 is written as a literal instead of through NewEntry
		es[len(es)-1] = &gldap.Entry{DN: udn("literal"), Attributes: []*gldap.EntryAttribute{{Name: "password", Values: []string{"pw-literal", "second"}}}}
	}
	return es
}

func groupSet(n int) []*refEntry {
	if n == 0 {
		return []*refEntry{{DN: gdn("admin"), Attrs: []codec.Attr{{Type: "member", Vals: []string{udn("alice")}}, {Type: "name", Vals: []string{"admin"}}}}}
	}
	// the second group carries a password attribute: a group entry is not a bind identity all the same
	return []*refEntry{{DN: gdn("admin"), Attrs: []codec.Attr{{Type: "name", Vals: []string{"admin"}}}}, {DN: gdn("dev"), Attrs: []codec.Attr{{Type: "name", Vals: []string{"dev"}}, {Type: "password", Vals: []string{"grp-pw"}}}}}
}

func toEntries(es []*refEntry) []*gldap.Entry {
	out := make([]*gldap.Entry, 0, len(es))
	for _, e := range es {
		m := map[string][]string{}
		for _, a := range e.Attrs {
			m[a.Type] = append([]string(nil), a.Vals...)
		}
		out = append(out, gldap.NewEntry(e.DN, m))
	}
	return out
}

func cloneEntries(es []*refEntry) []*refEntry {
	out := make([]*refEntry, len(es))
	for i, e := range es {
		c := &refEntry{DN: e.DN}
		for _, a := range e.Attrs {
			c.Attrs = append(c.Attrs, codec.Attr{Type: a.Type, Vals: append([]string(nil), a.Vals...)})
		}
		out[i] = c
	}
	return out
}

// sortAttrs: NewEntry (used by LDAP Add and SetUsers) orders attributes by name.
func sortAttrs(as []codec.Attr) []codec.Attr {
	out := append([]codec.Attr(nil), as...)
	sort.SliceStable(out, func(i, j int) bool { return out[i].Type < out[j].Type })
	return out
}

// apply returns the expected LDAP result code of op (-1 for Set* calls) and updates the reference store.
func (s *refStore) apply(o dirOp) int {
	switch o.Kind {
	case "add":
		if s.findUser(o.DN) >= 0 {
			return ldap.LDAPResultEntryAlreadyExists
		}
		// attributes given twice under one name: the map keeps the last
		seen := map[string]int{}
		var as []codec.Attr
		for _, a := range o.Attrs {
			if i, ok := seen[a.Type]; ok {
				as[i] = a
				continue
			}
			seen[a.Type] = len(as)
			as = append(as, a)
		}
		s.Users = append(s.Users, &refEntry{DN: o.DN, Attrs: sortAttrs(as)})
		return 0
	case "delete":
		if i := s.findUser(o.DN); i >= 0 {
			s.Users = append(s.Users[:i:i], s.Users[i+1:]...)
			return 0
		}
		if i := s.findGroup(o.DN); i >= 0 {
			s.Groups = append(s.Groups[:i:i], s.Groups[i+1:]...)
			return 0
		}
		return ldap.LDAPResultNoSuchObject
	case "modify":
		i := s.findUser(o.DN)
		if i < 0 {
			return ldap.LDAPResultNoSuchObject
		}
		e := s.Users[i]
		for _, ch := range o.Changes {
			ai := e.attr(ch.Type)
			switch ch.Op {
			case 0:
				if ai >= 0 {
					e.Attrs[ai].Vals = append(e.Attrs[ai].Vals, ch.Vals...)
				} else {
					e.Attrs = append(e.Attrs, codec.Attr{Type: ch.Type, Vals: append([]string(nil), ch.Vals...)})
				}
			case 1:
				if ai >= 0 {
					e.Attrs = append(e.Attrs[:ai:ai], e.Attrs[ai+1:]...)
				}
			case 2:
				if ai >= 0 {
					e.Attrs[ai].Vals = append([]string(nil), ch.Vals...)
				}
			}
		}
		return 0
	case "bind":
		if o.PW == "" && s.Anon {
			return 0
		}
		for _, u := range s.Users {
			if u.DN == o.DN {
				if ai := firstAttr(u, "password"); ai >= 0 && len(u.Attrs[ai].Vals) > 0 && u.Attrs[ai].Vals[0] == o.PW {
					return 0
				}
			}
		}
		return ldap.LDAPResultInvalidCredentials
	case "setusers":
		s.Users = cloneEntries(userSet(o.Set))
	case "setgroups":
		s.Groups = cloneEntries(groupSet(o.Set))
	case "setanon":
		s.Anon = o.Flag
	}
	return -1
}

func firstAttr(e *refEntry, name string) int {
	for i, a := range e.Attrs {
		if a.Type == name {
			return i
		}
	}
	return -1
}

type dirEnv struct {
	d    *testdirectory.Directory
	t    *quietT
	conn *ldap.Conn
	kind string
	// broken: an operation got no answer (a handler of the directory hangs); the directory is replaced before the
	// next history. noAnswer counts such events: after a handful the shard stops exploring (everything it would
	// see from then on is the same hang).
	broken   bool
	noAnswer int
	debug    bool
}

// restart abandons a directory that no longer answers and starts a fresh one.
func (e *dirEnv) restart() {
	old, oldConn := e.d, e.conn
	go func() {
		if oldConn != nil {
			oldConn.Close()
		}
		old.Stop() // may never return when a handler hangs with the directory's mutex held
	}()
	e.conn = nil
	k := e.kind
	if e.debug {
		k += "-debug"
	}
	n := newDirEnv(k)
	e.d, e.t, e.conn, e.broken = n.d, n.t, n.conn, false
}

func newDirEnv(kind string) *dirEnv {
	kind0 := kind
	t := &quietT{}
	opts := []testdirectory.Option{testdirectory.WithLogger(t, quietLogger)}
	if strings.HasSuffix(kind, "-debug") {
		// a directory whose logger is at debug level (gldap then dumps every request it reads)
		opts = []testdirectory.Option{testdirectory.WithLogger(t, debugLogger)}
		kind = strings.TrimSuffix(kind, "-debug")
	}
	if kind == "plain" || kind == "starttls" {
		opts = append(opts, testdirectory.WithNoTLS(t))
	}
	if userBase != testdirectory.DefaultUserDN {
		opts = append(opts, testdirectory.WithDefaults(t, &testdirectory.Defaults{UserDN: userBase, GroupDN: groupBase}))
	}
	d := startDirectory(t, opts...)
	e := &dirEnv{d: d, t: t, kind: kind}
	e.debug = strings.HasSuffix(kind0, "-debug")
	e.reconnect()
	return e
}

func (e *dirEnv) reconnect() {
	if e.conn != nil {
		e.conn.Close()
	}
	addr := fmt.Sprintf("%s:%d", e.d.Host(), e.d.Port())
	pool := x509.NewCertPool()
	pool.AppendCertsFromPEM([]byte(e.d.Cert()))
	tc := &tls.Config{RootCAs: pool, ServerName: "localhost"}
	var err error
	switch e.kind {
	case "tls":
		e.conn, err = ldap.DialURL("ldaps://"+addr, ldap.DialWithTLSConfig(tc))
	default:
		e.conn, err = ldap.DialURL("ldap://" + addr)
		if err == nil && e.kind == "starttls" {
			err = e.conn.StartTLS(tc)
		}
	}
	if err != nil {
		panic(fmt.Sprintf("harness: cannot connect to the test directory (%s): %v", e.kind, err))
	}
	e.conn.SetTimeout(15 * time.Second)
}

func (e *dirEnv) close() {
	if e.conn != nil {
		e.conn.Close()
	}
	// a directory with a hung handler never stops: do not wait for it for ever
	done := make(chan struct{})
	go func() { e.d.Stop(); close(done) }()
	select {
	case <-done:
	case <-time.After(10 * time.Second):
	}
}

func (e *dirEnv) reset() {
	e.d.SetUsers(toEntries(userSet(0))...)
	e.d.SetGroups(toEntries(groupSet(0))...)
	e.d.SetTokenGroups(nil)
	e.d.SetControls()
	e.d.SetAllowAnonymousBind(false)
}

func codeOf(err error) int {
	if err == nil {
		return 0
	}
	if le, ok := err.(*ldap.Error); ok && le.ResultCode < 200 {
		return int(le.ResultCode)
	}
	return 999 // go-ldap's own codes (200 and up: network error, timeout, ...) mean that no LDAP answer arrived
}

// exec performs op on the live directory and returns the LDAP result code (-1 for Set* calls).
func (e *dirEnv) exec(c *Ctx, o dirOp) (code int) {
	defer func() {
		if code == 999 {
			e.broken = true
			e.noAnswer++
		}
	}()
	c.Count("operations", 1)
	switch o.Kind {
	case "add":
		c.Count("ldap_calls", 1)
		ar := ldap.NewAddRequest(o.DN, nil)
		for _, a := range o.Attrs {
			ar.Attribute(a.Type, a.Vals)
		}
		return codeOf(e.conn.Add(ar))
	case "delete":
		c.Count("ldap_calls", 1)
		return codeOf(e.conn.Del(ldap.NewDelRequest(o.DN, nil)))
	case "modify":
		c.Count("ldap_calls", 1)
		mr := ldap.NewModifyRequest(o.DN, nil)
		for _, ch := range o.Changes {
			switch ch.Op {
			case 0:
				mr.Add(ch.Type, ch.Vals)
			case 1:
				mr.Delete(ch.Type, ch.Vals)
			case 2:
				mr.Replace(ch.Type, ch.Vals)
			}
		}
		return codeOf(e.conn.Modify(mr))
	case "bind":
		c.Count("ldap_calls", 1)
		_, err := e.conn.SimpleBind(&ldap.SimpleBindRequest{Username: o.DN, Password: o.PW, AllowEmptyPassword: true})
		return codeOf(err)
	case "setusers":
		e.d.SetUsers(liveUsers(e.t, o.Set)...)
	case "setgroups":
		e.d.SetGroups(toEntries(groupSet(o.Set))...)
	case "setanon":
		e.d.SetAllowAnonymousBind(o.Flag)
	case "setcontrols":
		if o.Set == 0 {
			e.d.SetControls()
		} else {
			ctl, _ := gldap.NewControlString("1.2.3.4.5", gldap.WithControlValue("v"))
			e.d.SetControls(ctl)
		}
	}
	return -1
}

func normVal(v string) string {
	if n, rest, err := codec.ParseOne([]byte(v)); err == nil && len(rest) == 0 && n.Is(codec.Universal, false, codec.TagOctet) {
		return string(n.Content)
	}
	return v
}

func attrsEqual(got []*ldap.EntryAttribute, want []codec.Attr) string {
	g := map[string][]string{}
	for _, a := range got {
		var vs []string
		for _, v := range a.Values {
			vs = append(vs, normVal(v))
		}
		if _, dup := g[a.Name]; dup {
			return fmt.Sprintf("attribute %q returned twice", a.Name)
		}
		g[a.Name] = vs
	}
	if len(g) != len(want) {
		return fmt.Sprintf("attributes %v, want %v", names(g), want)
	}
	for _, w := range want {
		gv, ok := g[w.Type]
		if !ok || !sliceEq(gv, w.Vals) && !(len(gv) == 0 && len(w.Vals) == 0) {
			return fmt.Sprintf("attribute %q = %q, want %q", w.Type, gv, w.Vals)
		}
	}
	return ""
}

func names(m map[string][]string) []string {
	var o []string
	for k := range m {
		o = append(o, k)
	}
	sort.Strings(o)
	return o
}

var poolUsers = []string{udn("alice"), udn("bob"), udn("eve"), udn("Alice"), udn("zo\u00eb"), udn(`doe\2Cjane`)}

// rdnFilter is the search filter that selects the entry by its RDN: the value escaped as RFC 4515 asks.
func rdnFilter(dn string) string {
	rdn := short(dn)
	if i := strings.IndexByte(rdn, '='); i > 0 {
		return "(" + rdn[:i+1] + ldap.EscapeFilter(rdn[i+1:]) + ")"
	}
	return "(" + rdn + ")"
}

var poolGroups = []string{gdn("admin"), gdn("dev")}

// probe compares everything observable with the reference store. Returns findings as (prop, key, detail).
func (e *dirEnv) probe(c *Ctx, s *refStore) [][3]string {
	var out [][3]string
	search := func(base, filter string, scope int) ([]*ldap.Entry, int) {
		c.Count("ldap_calls", 1)
		if e.broken {
			return nil, 998 // the directory already stopped answering in this history
		}
		res, err := e.conn.Search(ldap.NewSearchRequest(base, scope, ldap.NeverDerefAliases, 0, 0, false, filter, nil, nil))
		if err != nil {
			if codeOf(err) == 999 {
				e.broken = true
				e.noAnswer++
			}
			return nil, codeOf(err)
		}
		return res.Entries, 0
	}
	check := func(form, dn string, want *refEntry, entries []*ldap.Entry, code int) {
		if code == 998 {
			return
		}
		if code == 999 {
			out = append(out, [3]string{"C20", "a search gets no LDAP answer", form + " " + short(dn)})
			return
		}
		if want == nil {
			if len(entries) != 0 {
				out = append(out, [3]string{"C20", "a search (" + form + ") finds an entry that is not in the store (deleted or never added)", fmt.Sprintf("%s -> %d entries, first %s", short(dn), len(entries), entries[0].DN)})
			}
			return
		}
		if len(entries) != 1 || entries[0].DN != want.DN {
			var dns []string
			for _, en := range entries {
				dns = append(dns, en.DN)
			}
			out = append(out, [3]string{"C20", "a search (" + form + ") does not find exactly the stored entry", fmt.Sprintf("%s -> %v (code %d)", short(dn), dns, code)})
			return
		}
		if d := attrsEqual(entries[0].Attributes, want.Attrs); d != "" {
			out = append(out, [3]string{"C20", "a search (" + form + ") returns other attributes than the store holds", fmt.Sprintf("%s: %s", short(dn), d)})
		}
	}
	for _, dn := range poolUsers {
		var want *refEntry
		if i := s.findUser(dn); i >= 0 {
			want = s.Users[i]
		}
		ents, code := search(userBase, rdnFilter(dn), ldap.ScopeWholeSubtree)
		check("user base + filter", dn, want, ents, code)
		ents, code = search(dn, "(objectClass=*)", ldap.ScopeBaseObject)
		check("base = DN", dn, want, ents, code)
	}
	for _, dn := range poolGroups {
		var want *refEntry
		if i := s.findGroup(dn); i >= 0 {
			want = s.Groups[i]
		}
		ents, code := search(groupBase, rdnFilter(dn), ldap.ScopeWholeSubtree)
		check("group base + filter", dn, want, ents, code)
	}
	// binds
	for _, dn := range append(append([]string{}, poolUsers...), "", udn("nobody"), strings.ToUpper(udn("bob")), udn("nopw"), udn("zerovals"), udn("emptystr"), udn("literal"), gdn("dev")) {
		pws := []string{"", "wrong"}
		if strings.HasPrefix(dn, "cn=dev,") {
			pws = append(pws, "grp-pw")
		}
		if i := s.findUser(dn); i >= 0 {
			for _, u := range s.Users {
				if ai := firstAttr(u, "password"); u.DN == dn && ai >= 0 && len(u.Attrs[ai].Vals) > 0 {
					pws = append(pws, u.Attrs[ai].Vals...)
				}
			}
		} else {
			pws = append(pws, "pw-"+strings.TrimPrefix(strings.ToLower(short(dn)), "cn="))
		}
		for _, pw := range pws {
			if e.broken {
				break
			}
			o := dirOp{Kind: "bind", DN: dn, PW: pw}
			want := (&refStore{Users: s.Users, Anon: s.Anon}).apply(o)
			got := e.exec(c, o)
			if got != want {
				what := "a bind with wrong credentials succeeds"
				if want == 0 {
					what = "a bind with the right credentials fails"
				}
				if got != 0 && got != ldap.LDAPResultInvalidCredentials {
					what = "a failed bind returns another code than invalidCredentials"
				}
				out = append(out, [3]string{"C19", what, fmt.Sprintf("Bind(%s,%q) = %d, want %d (anonymous allowed: %v)", short(dn), pw, got, want, s.Anon)})
			}
		}
	}
	return out
}

// runHistory executes one history from the initial state; the final state is probed.
func runHistory(c *Ctx, env *dirEnv, prop string, h []dirOp, verbose bool) {
	if env.noAnswer >= 6 && !verbose {
		c.CapHit = true
		return
	}
	c.Count("histories", 1)
	if env.broken {
		env.restart()
	}
	env.reset()
	s := &refStore{Users: cloneEntries(userSet(0)), Groups: cloneEntries(groupSet(0))}
	kinds := ""
	report := func(p, key, detail string) {
		if p != prop {
			return
		}
		var hs []string
		for _, o := range h {
			hs = append(hs, o.String())
		}
		c.Report(key, fmt.Sprintf("history %v: %s", hs, detail), h)
	}
	for i, o := range h {
		kinds += o.Kind[:3] + " "
		want := s.apply(o)
		got := env.exec(c, o)
		if got != want {
			p := "C20"
			key := fmt.Sprintf("%s returns result code %d where the store says %d", o.Kind, got, want)
			if o.Kind == "bind" {
				p = "C19"
				key = "a bind with wrong credentials succeeds"
				if want == 0 {
					key = "a bind with the right credentials fails"
				}
			}
			if got == 999 {
				key = o.Kind + " gets no LDAP answer"
				env.reconnect()
			}
			report(p, key, fmt.Sprintf("step %d %s", i, o))
			c.Outcome(kinds + "FAIL")
			return
		}
	}
	fs := env.probe(c, s)
	for _, f := range fs {
		report(f[0], f[1], f[2])
	}
	if len(fs) == 0 {
		c.Outcome(kinds + "ok")
	} else {
		c.Outcome(kinds + "FAIL")
	}
	if len(c.Samp) < 3 && len(h) > 1 {
		var hs []string
		for _, o := range h {
			hs = append(hs, o.String())
		}
		c.Sample(hs)
	}
}

func dirAlphabet(thorough bool) []dirOp {
	var ops []dirOp
	a1 := []codec.Attr{{Type: "mail", Vals: []string{"a@x"}}, {Type: "password", Vals: []string{"pw-new"}}}
	a2 := []codec.Attr{{Type: "sn", Vals: []string{"x", "y"}}, {Type: "mail", Vals: []string{"a@x"}}, {Type: "password", Vals: []string{"pw-new", "second"}}}
	// a3: an attribute without values next to ordinary ones
	a3 := []codec.Attr{{Type: "description", Vals: []string{}}, {Type: "mail", Vals: []string{"a@x"}}, {Type: "password", Vals: []string{"pw-new"}}}
	for i, dn := range poolUsers {
		ops = append(ops, dirOp{Kind: "add", DN: dn, Attrs: a1}, dirOp{Kind: "add", DN: dn, Attrs: a2})
		if i < 2 {
			ops = append(ops, dirOp{Kind: "add", DN: dn, Attrs: a3})
		}
	}
	for _, dn := range append(append([]string{}, poolUsers...), poolGroups...) {
		ops = append(ops, dirOp{Kind: "delete", DN: dn})
	}
	single := [][]codec.Change{
		{}, // a Modify without changes: success for an entry that exists, noSuchObject for one that does not
		{{Op: 0, Type: "description", Vals: []string{"d1"}}},
		{{Op: 0, Type: "email", Vals: []string{"second@x"}}},
		{{Op: 1, Type: "email"}},
		{{Op: 1, Type: "nonexistent"}},
		{{Op: 2, Type: "email", Vals: []string{"new@x", "new2@x"}}},
		{{Op: 2, Type: "memberOf", Vals: []string{"ops"}}},
	}
	double := [][]codec.Change{
		{{Op: 1, Type: "email"}, {Op: 2, Type: "name", Vals: []string{"renamed"}}},
		{{Op: 1, Type: "email"}, {Op: 0, Type: "name", Vals: []string{"extra"}}},
		{{Op: 0, Type: "description", Vals: []string{"d"}}, {Op: 1, Type: "description"}},
		{{Op: 2, Type: "name", Vals: []string{"n2"}}, {Op: 1, Type: "email"}},
		{{Op: 1, Type: "email"}, {Op: 1, Type: "name"}},
	}
	for _, dn := range poolUsers {
		for _, ch := range single {
			ops = append(ops, dirOp{Kind: "modify", DN: dn, Changes: ch})
		}
		for _, ch := range double {
			ops = append(ops, dirOp{Kind: "modify", DN: dn, Changes: ch})
		}
	}
	for i := 0; i < 4; i++ {
		ops = append(ops, dirOp{Kind: "setusers", Set: i})
	}
	for i := 0; i < 2; i++ {
		ops = append(ops, dirOp{Kind: "setgroups", Set: i})
	}
	ops = append(ops, dirOp{Kind: "setanon", Flag: true}, dirOp{Kind: "setanon", Flag: false})
	ops = append(ops, dirOp{Kind: "setcontrols", Set: 1}, dirOp{Kind: "setcontrols", Set: 0})
	for _, dn := range []string{udn("alice"), udn("eve"), ""} {
		for _, pw := range []string{"pw-alice", "pw-new", ""} {
			ops = append(ops, dirOp{Kind: "bind", DN: dn, PW: pw})
		}
	}
	return ops
}

// customBasePass: a directory started with other base DNs than the defaults (Defaults.UserDN / GroupDN):
// the empty history and every history of one operation, probed like all others.
func customBasePass(c *Ctx, prop string) {
	setBases("ou=staff,dc=corp,dc=test", "ou=teams,dc=corp,dc=test")
	defer setBases(testdirectory.DefaultUserDN, testdirectory.DefaultGroupDN)
	env := newDirEnv("plain")
	defer env.close()
	if c.Mine() {
		c.Count("custom_base_dn_histories", 1)
		runHistory(c, env, prop, nil, false)
	}
	for _, a := range dirAlphabet(c.Thorough()) {
		if c.Mine() {
			c.Count("custom_base_dn_histories", 1)
			runHistory(c, env, prop, []dirOp{a}, false)
		}
	}
}

func dirRun(c *Ctx, prop string) {
	env := newDirEnv("plain")
	defer env.close()
	ops := dirAlphabet(c.Thorough())
	if c.Shard == 0 {
		c.Count("alphabet", int64(len(ops)))
	}
	// depth 0, 1, 2 complete
	if c.Mine() {
		runHistory(c, env, prop, nil, false)
	}
	for _, a := range ops {
		if c.Mine() {
			runHistory(c, env, prop, []dirOp{a}, false)
		}
	}
	for _, a := range ops {
		for _, b := range ops {
			if c.Mine() {
				runHistory(c, env, prop, []dirOp{a, b}, false)
			}
		}
	}
	customBasePass(c, prop)
	depth := 2
	// depth 3: quick = histories whose middle operation changes the store and whose ends are of different kinds;
	// thorough = all
	for _, a := range ops {
		for _, b := range ops {
			if !c.Thorough() && (b.Kind == "bind" || b.Kind == "setanon" || a.Kind == b.Kind) {
				continue
			}
			for _, d := range ops {
				if !c.Thorough() && (d.Kind == b.Kind || d.Kind == "setusers" || d.Kind == "setgroups" || (a.DN != d.DN && a.Kind != "bind")) {
					continue
				}
				if c.Mine() {
					if c.Expired() {
						goto done
					}
					runHistory(c, env, prop, []dirOp{a, b, d}, false)
				}
			}
		}
	}
	if c.Thorough() {
		depth = 3
	}
done:
	if c.Shard == 0 {
		c.Count("depth_completed_min", int64(depth))
	}
	// C19: the static matrix over the three transports
	if prop == "C19" {
		for _, kind := range []string{"tls", "starttls", "plain", "plain-debug", "tls-debug"} {
			if !c.Mine() {
				continue
			}
			e2 := newDirEnv(kind)
			sets := []int{0, 1, 2, 4}
			if kind == "plain" {
				sets = []int{4} // the other sets are part of the histories above
			}
			for _, set := range sets {
				for _, anon := range []bool{false, true} {
					h := []dirOp{{Kind: "setusers", Set: set}, {Kind: "setanon", Flag: anon}}
					c.Count("transport_cases."+kind, 1)
					runHistory(c, e2, prop, h, false)
				}
			}
			e2.close()
		}
	}
}
