package main

import (
	"encoding/hex"
	"encoding/json"
	"fmt"

	ber "github.com/go-asn1-ber/asn1-ber"
	"github.com/go-ldap/ldap/v3"
	"github.com/jimlambrt/gldap"
	"verif/codec"
	"verif/ev"
)

// C14 — controls survive encode and decode unchanged, in both directions.

func init() {
	checks["C14"] = &Check{
		Shards: func(tier string) int { return 16 },
		Run:    c14run,
		Finalize: func(m *shardOut, r *ev.Run) {
			r.Cov["states"] = m.Counts["cases"]
			r.Cov["transitions"] = m.Counts["codec_calls"]
			r.Cov["traces_validated_against_impl"] = m.Counts["codec_calls"]
			r.Cov["evaluations"] = m.Counts["cases"]
			r.Cov["distinct_nontrivial"] = len(m.Outc)
			r.Cov["rule"] = "every control value of the alphabet, singly and in ordered pairs (thorough: field values at every power of two of their width with both neighbours, cookie lengths around the BER length-form boundaries, ordered triples): request direction = raw-BER control list on a Bind/Search/Modify/Add/Delete envelope decoded by the real readRequest; response direction = gldap value set on Bind and SearchDone responses, written by the real ResponseWriter, parsed by the strict parser and by go-ldap's DecodeControl; plus the Behera constructor table. distinct_nontrivial = distinct (direction, envelope, kinds, outcome) classes"
			r.Cov["samples"] = m.Samp
			r.Cov["per_family"] = m.Counts
			r.Cov["outcomes"] = m.Outc
			r.Cov["exhaustive"] = !m.CapHit
			attachSecondary(r)
			r.Assume = []string{
				"struct fields and getters are compared, never String() output",
				"response direction: the Behera value without any field is checked with the strict parser only (go-ldap v3.4.6 DecodeControl dereferences a nil value there: a go-ldap defect)",
				"go-ldap has no typed decoder for a VChu warning without value; that form is request-direction only",
			}
		},
		Replay: func(p json.RawMessage, c *Ctx) {
			var rep c14rep
			json.Unmarshal(p, &rep)
			switch rep.Dir {
			case "request":
				c14request(c, rep.Env, rep.Controls)
			case "response":
				c14response(c, rep.Env, rep.Controls)
			case "behera":
				c14behera(c, rep.Set, rep.Vals)
			}
		},
	}
}

type c14rep struct {
	Dir      string          `json:"dir"`
	Env      string          `json:"envelope,omitempty"`
	Controls []codec.Control `json:"controls,omitempty"`
	Set      [3]bool         `json:"set,omitempty"`
	Vals     [3]uint         `json:"vals,omitempty"`
}

func kinds(cl []codec.Control) string {
	s := ""
	for i, c := range cl {
		if i > 0 {
			s += "+"
		}
		s += c.Kind
		if c.NoValue {
			s += "(nov)"
		}
	}
	return s
}

func c14request(c *Ctx, env string, cl []codec.Control) {
	c.Count("cases", 1)
	// under an error-level and under a debug-level logger (gldap walks every packet it dumps)
	c14requestOne(c, env, cl, false)
	c14requestOne(c, env, cl, true)
}

func c14requestOne(c *Ctx, env string, cl []codec.Control, debug bool) {
	c.Count("request_direction", 1)
	c.Count("codec_calls", 1)
	r := canonReq(env)
	r.Controls = cl
	b := r.Bytes()
	var req *gldap.Request
	var err error
	k := try(func() { req, err = decode(b, 1, debug) })
	rep := c14rep{Dir: "request", Env: env, Controls: cl}
	if debug {
		env += " (debug-level logger)"
	}
	switch {
	case k != "":
		c.Outcome("request " + env + " " + kinds(cl) + " panic")
		c.Report("request decoder panics on a well-formed control: "+k, fmt.Sprintf("%s with %v: %x", env, cl, trunc2(b)), rep)
		return
	case err != nil:
		c.Outcome("request " + env + " " + kinds(cl) + " rejected")
		c.Report(fmt.Sprintf("request decoder rejects well-formed control(s) %s", kinds(cl)), fmt.Sprintf("%s: %v: %x", env, err, trunc2(b)), rep)
		return
	}
	var got []gldap.Control
	switch m := gldap.VMessage(req).(type) {
	case *gldap.SimpleBindMessage:
		got = m.Controls
	case *gldap.SearchMessage:
		got = m.Controls
	case *gldap.ModifyMessage:
		got = m.Controls
	case *gldap.AddMessage:
		got = m.Controls
	case *gldap.DeleteMessage:
		got = m.Controls
	}
	if d := ctlsDiff(got, cl); d != "" {
		c.Outcome("request " + env + " " + kinds(cl) + " differs")
		c.Report(fmt.Sprintf("request direction: %s control differs after decode", kindOfDiff(cl, d)), fmt.Sprintf("%s %v: %s", env, cl, d), rep)
		return
	}
	c.Outcome("request " + env + " " + kinds(cl) + " equal")
}

func kindOfDiff(cl []codec.Control, d string) string {
	for i, c := range cl {
		if len(d) > 9 && d[:9] == fmt.Sprintf("control[%d", i) {
			s := c.Kind
			if c.NoValue {
				s += " (no value)"
			}
			return s
		}
	}
	return "list"
}

// writeResponse builds a response on a real request decoded from reqBytes and writes it through the real ResponseWriter.
func writeResponse(reqBytes []byte, requestID int, build func(req *gldap.Request) gldap.Response) (out []byte, panicKey string, err error) {
	return writeResponseEx(reqBytes, requestID, func(req *gldap.Request, _ *gldap.ResponseWriter) gldap.Response { return build(req) })
}

// writeResponseEx also hands the ResponseWriter to the builder (for responses that are written more than once).
func writeResponseEx(reqBytes []byte, requestID int, build func(req *gldap.Request, w *gldap.ResponseWriter) gldap.Response) (out []byte, panicKey string, err error) {
	panicKey = try(func() {
		vc, mc, e := newSeam(reqBytes, 7, nil, quietLogger)
		if e != nil {
			err = e
			return
		}
		req, e := vc.ReadRequest(requestID)
		if e != nil {
			err = e
			return
		}
		w, e := vc.NewResponseWriter(requestID)
		if e != nil {
			err = e
			return
		}
		resp := build(req, w)
		if e := w.Write(resp); e != nil {
			err = e
			return
		}
		out = append([]byte(nil), mc.Out.Bytes()...)
	})
	return
}

func c14response(c *Ctx, env string, cl []codec.Control) {
	c.Count("cases", 1)
	c.Count("response_direction", 1)
	rep := c14rep{Dir: "response", Env: env, Controls: cl}
	var gcs []gldap.Control
	for _, ct := range cl {
		g, err := toGldap(ct)
		if err != nil {
			c.Report("gldap constructor rejects a valid control value ("+ct.Kind+")", fmt.Sprintf("%v: %v", ct, err), rep)
			return
		}
		gcs = append(gcs, g)
	}
	reqOp := map[string]string{"bind": "bind", "searchdone": "search"}[env]
	c.Count("codec_calls", 1)
	out, pk, err := writeResponse(canonReq(reqOp).Bytes(), 1, func(req *gldap.Request) gldap.Response {
		if env == "bind" {
			r := req.NewBindResponse(gldap.WithResponseCode(0))
			r.SetControls(gcs...)
			return r
		}
		r := req.NewSearchDoneResponse(gldap.WithResponseCode(0))
		r.SetControls(gcs...)
		return r
	})
	if pk != "" {
		c.Report("encoding a response with controls panics: "+pk, fmt.Sprintf("%s %v", env, cl), rep)
		return
	}
	if err != nil {
		c.Report("writing a response with controls fails", fmt.Sprintf("%s %v: %v", env, cl, err), rep)
		return
	}
	resp, err := codec.ParseResponse(out)
	if err != nil {
		c.Outcome("response " + env + " " + kinds(cl) + " malformed")
		c.Report("response with controls is not a well-formed LDAPMessage", fmt.Sprintf("%s %v: %v: %x", env, cl, err, trunc2(out)), rep)
		return
	}
	if len(resp.Controls) != len(cl) {
		c.Report("response direction: number of controls differs", fmt.Sprintf("%s: %d sent, %d on the wire", env, len(cl), len(resp.Controls)), rep)
		return
	}
	for i, want := range cl {
		got, err := codec.ParseControl(resp.Controls[i])
		w := want
		if w.Kind == "string" && w.Value == "" {
			// absent and empty value are the same thing for a generic control
		}
		if err != nil || got.Kind != w.Kind || got.OID != cOID(w) && w.Kind == "string" || got.Crit != w.Crit && (w.Kind == "string" || w.Kind == "managedsait") ||
			got.Size != w.Size || string(got.Cookie) != string(w.Cookie) || got.Expire != w.Expire || got.Grace != w.Grace || got.Err != w.Err || got.Value != w.Value {
			c.Outcome("response " + env + " " + kinds(cl) + " differs(strict)")
			c.Report(fmt.Sprintf("response direction: %s control differs on the wire (strict parser)", w.Kind), fmt.Sprintf("%s control[%d]: got %v want %v err %v", env, i, got, w, err), rep)
			return
		}
		// go-ldap's decoder
		if w.Kind == "behera" && w.Grace < 0 && w.Expire < 0 && w.Err < 0 {
			continue
		}
		c.Count("codec_calls", 1)
		var lc ldap.Control
		var lerr error
		pk := try(func() { lc, lerr = ldap.DecodeControl(ber.DecodePacket(resp.Controls[i].Bytes())) })
		if pk != "" || lerr != nil {
			c.Outcome("response " + env + " " + kinds(cl) + " go-ldap-fails")
			c.Report(fmt.Sprintf("response direction: go-ldap cannot decode the %s control gldap wrote", w.Kind), fmt.Sprintf("%s control[%d] %v: panic=%q err=%v bytes=%x", env, i, w, pk, lerr, trunc2(resp.Controls[i].Bytes())), rep)
			return
		}
		if d := goLdapDiff(lc, w); d != "" {
			c.Outcome("response " + env + " " + kinds(cl) + " differs(go-ldap)")
			c.Report(fmt.Sprintf("response direction: %s control differs for go-ldap", w.Kind), fmt.Sprintf("%s control[%d] %v: %s", env, i, w, d), rep)
			return
		}
	}
	c.Outcome("response " + env + " " + kinds(cl) + " equal")
}

func c14behera(c *Ctx, set [3]bool, vals [3]uint) {
	c.Count("cases", 1)
	c.Count("behera_constructor", 1)
	c.Count("codec_calls", 1)
	var opts []gldap.Option
	if set[0] {
		opts = append(opts, gldap.WithGraceAuthNsRemaining(vals[0]))
	}
	if set[1] {
		opts = append(opts, gldap.WithSecondsBeforeExpiration(vals[1]))
	}
	if set[2] {
		opts = append(opts, gldap.WithErrorCode(vals[2]))
	}
	var ctl *gldap.ControlBeheraPasswordPolicy
	var err error
	rep := c14rep{Dir: "behera", Set: set, Vals: vals}
	pk := try(func() { ctl, err = gldap.NewControlBeheraPasswordPolicy(opts...) })
	if pk != "" {
		c.Report(pk, fmt.Sprintf("set=%v vals=%v", set, vals), rep)
		return
	}
	n := 0
	for _, s := range set {
		if s {
			n++
		}
	}
	wantErr := n >= 2 || (set[2] && vals[2] > 8)
	switch {
	case wantErr && err == nil:
		e, _ := ctl.ErrorCode()
		c.Outcome("behera accepted-invalid")
		what := "more than one of grace/expire/error"
		if n < 2 {
			what = "an error code above 8"
		}
		c.Report("Behera constructor accepts "+what, fmt.Sprintf("set=%v vals=%v -> grace=%d expire=%d error=%d", set, vals, ctl.Grace(), ctl.Expire(), e), rep)
	case !wantErr && err != nil:
		c.Outcome("behera rejected-valid")
		c.Report("Behera constructor rejects a valid combination", fmt.Sprintf("set=%v vals=%v: %v", set, vals, err), rep)
	case err != nil:
		c.Outcome("behera rejected")
	default:
		e, _ := ctl.ErrorCode()
		want := [3]int64{-1, -1, -1}
		for i := range set {
			if set[i] {
				want[i] = int64(vals[i])
			}
		}
		if int64(ctl.Grace()) != want[0] || int64(ctl.Expire()) != want[1] || int64(e) != want[2] {
			c.Outcome("behera wrong-fields")
			c.Report("Behera constructor stores other values than given", fmt.Sprintf("set=%v vals=%v -> grace=%d expire=%d error=%d", set, vals, ctl.Grace(), ctl.Expire(), e), rep)
			return
		}
		c.Outcome(fmt.Sprintf("behera ok set=%d", n))
	}
}

func c14run(c *Ctx) {
	level := 1
	if c.Thorough() {
		level = 3
	}
	all := controlAlpha(level)
	pairBase := controlAlpha(1)
	if !c.Thorough() {
		pairBase = controlAlpha(0)
		// quick pairs: one per kind plus the no-value forms
		for _, x := range controlAlpha(1) {
			if x.NoValue {
				pairBase = append(pairBase, x)
			}
		}
	}
	envs := []string{"bind", "search", "modify", "add", "delete"}
	n := 0
	for _, env := range envs {
		if c.Mine() {
			c14request(c, env, nil)
		}
		for _, a := range all {
			if c.Mine() {
				c14request(c, env, []codec.Control{a})
				n++
				if n%97 == 0 || len(c.Samp) < 2 {
					c.Sample(map[string]interface{}{"direction": "request", "envelope": env, "control": a.String(), "hex": hex.EncodeToString(trunc2(a.Node().Bytes()))})
				}
			}
		}
		for _, a := range pairBase {
			for _, b := range pairBase {
				if c.Mine() {
					c14request(c, env, []codec.Control{a, b})
				}
			}
		}
	}
	if c.Thorough() {
		// ordered triples over one value per kind plus the value-less forms
		tri := controlAlpha(0)
		for _, x := range controlAlpha(1) {
			if x.NoValue {
				tri = append(tri, x)
			}
		}
		for _, env := range envs {
			for _, a := range tri {
				for _, b := range tri {
					for _, d := range tri {
						if c.Mine() {
							c14request(c, env, []codec.Control{a, b, d})
						}
					}
				}
			}
		}
	}
	respOK := func(x codec.Control) bool { return !x.NoValue || x.Kind == "behera" }
	for _, env := range []string{"bind", "searchdone"} {
		for _, a := range all {
			if respOK(a) && c.Mine() {
				c14response(c, env, []codec.Control{a})
				n++
				if n%53 == 0 || len(c.Samp) < 3 {
					c.Sample(map[string]interface{}{"direction": "response", "envelope": env, "control": a.String()})
				}
			}
		}
		for _, a := range pairBase {
			for _, b := range pairBase {
				if respOK(a) && respOK(b) && c.Mine() {
					c14response(c, env, []codec.Control{a, b})
				}
			}
		}
	}
	vals := []uint{0, 1, 8, 9, 127, 128, 255, 256, 264, 32767, 65536, 1<<31 - 1, 1 << 31, 1<<32 + 3}
	for mask := 0; mask < 8; mask++ {
		set := [3]bool{mask&1 != 0, mask&2 != 0, mask&4 != 0}
		var rec func(i int, v [3]uint)
		rec = func(i int, v [3]uint) {
			if i == 3 {
				if c.Mine() {
					c14behera(c, set, v)
				}
				return
			}
			if !set[i] {
				rec(i+1, v)
				return
			}
			for _, x := range vals {
				v[i] = x
				rec(i+1, v)
			}
		}
		rec(0, [3]uint{})
	}
}
