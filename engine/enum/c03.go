package main

import (
	"encoding/hex"
	"encoding/json"
	"fmt"
	"net"
	"strings"
	"sync"
	"time"

	"github.com/go-ldap/ldap/v3"
	"github.com/jimlambrt/gldap"
	"verif/codec"
	"verif/ev"
)

// C03 — each request is served by exactly one handler: the first matching route; typed refusal otherwise.

func init() {
	checks["C03"] = &Check{
		Shards: func(tier string) int { return 32 },
		Run:    c03run,
		Finalize: func(m *shardOut, r *ev.Run) {
			r.Cov["states"] = m.Counts["tables"]
			r.Cov["transitions"] = m.Counts["registrations"] + m.Counts["dispatches"]
			r.Cov["traces_validated_against_impl"] = m.Counts["dispatches"]
			r.Cov["evaluations"] = m.Counts["dispatches"]
			r.Cov["distinct_nontrivial"] = len(m.Outc)
			r.Cov["rule"] = "state = route table (sequence of registration calls on a real Mux, BFS by length); in every state every request of the alphabet is decoded by the real newRequest and dispatched through the real (*Mux).serve with a real ResponseWriter; compared with a reference first-match function. distinct_nontrivial = distinct (request class, which position served it / default / refusal) outcomes"
			r.Cov["samples"] = m.Samp
			r.Cov["per_family"] = m.Counts
			r.Cov["max_routes"] = map[bool]int{true: 3, false: 2}[r.Tier == "thorough"]
			r.Cov["exhaustive"] = !m.CapHit
			attachSecondary(r)
			r.Assume = []string{"route criteria and request fields range over the stated alphabets (case variants, all three scopes, four extended names)", "exactly-once dispatch through the connection loop is checked by the SCHED checks C06/C10"}
		},
		Replay: func(p json.RawMessage, c *Ctx) {
			var rep c03rep
			json.Unmarshal(p, &rep)
			c03table(c, rep.Table, true)
		},
	}
}

type routeSpec struct {
	Kind   string `json:"kind"` // bind search extended modify add delete default unbind
	Base   string `json:"base,omitempty"`
	Filter string `json:"filter,omitempty"`
	Scope  int    `json:"scope,omitempty"`
	Name   string `json:"name,omitempty"`
	// Explicit: criteria that are absent (zero) are still passed as options, with their zero value:
	// WithBaseDN(""), WithFilter(""), WithScope(BaseObject). A zero criterion is no criterion either way.
	Explicit bool `json:"explicit_zero_options,omitempty"`
}

type c03rep struct {
	Table   []routeSpec `json:"table"`
	Request *codec.Req  `json:"request,omitempty"`
	// RouterAfter: -1 = the request is served by the Mux directly; j >= 0 = through a Server whose Router was
	// set after j registrations
	RouterAfter int `json:"router_after"`
}

func routeAlphabet() []routeSpec {
	a := []routeSpec{{Kind: "bind"}}
	for _, b := range []string{"", "dc=a", "DC=A", "dc=b"} {
		for _, f := range []string{"", "(cn=x)", "(CN=X)", "(cn=y)"} {
			for _, s := range []int{0, 1, 2} {
				a = append(a, routeSpec{Kind: "search", Base: b, Filter: f, Scope: s})
			}
		}
	}
	a = append(a, routeSpec{Kind: "search", Explicit: true}, routeSpec{Kind: "search", Base: "dc=a", Explicit: true},
		routeSpec{Kind: "search", Filter: "(cn=x)", Explicit: true}, routeSpec{Kind: "search", Scope: 1, Explicit: true})
	for _, n := range []string{codec.OIDStartTLS, codec.OIDWhoAmI, "x"} {
		a = append(a, routeSpec{Kind: "extended", Name: n})
	}
	a = append(a, routeSpec{Kind: "modify"}, routeSpec{Kind: "add"}, routeSpec{Kind: "delete"}, routeSpec{Kind: "default"}, routeSpec{Kind: "unbind"})
	return a
}

func c03requests() []*codec.Req {
	var rs []*codec.Req
	rs = append(rs, canonReq("bind"))
	// "" is the base of a root-DSE query: a request value, not an absent criterion
	for _, b := range []string{"dc=a", "DC=A", "dc=b", "dc=c", ""} {
		for _, f := range []string{"(cn=x)", "(CN=X)", "(cn=y)"} {
			for s := int64(0); s < 3; s++ {
				rs = append(rs, &codec.Req{Op: "search", MsgID: 6, DN: b, Scope: s, Filter: f})
			}
		}
	}
	for _, n := range []string{codec.OIDStartTLS, codec.OIDWhoAmI, "x", "y"} {
		rs = append(rs, &codec.Req{Op: "extended", MsgID: 10, Name: n})
	}
	rs = append(rs, canonReq("modify"), canonReq("add"), canonReq("delete"))
	for i, r := range rs {
		r.MsgID = int64(1000 + i*7)
		prepFilter(r)
	}
	return rs
}

var c03reqs []*codec.Req
var c03reqBytes [][]byte

func refMatch(rt routeSpec, q *codec.Req) bool {
	switch rt.Kind {
	case "bind", "modify", "add", "delete":
		return q.Op == rt.Kind
	case "extended":
		return q.Op == "extended" && q.Name == rt.Name
	case "search":
		if q.Op != "search" {
			return false
		}
		if rt.Base != "" && !strings.EqualFold(rt.Base, q.DN) {
			return false
		}
		if rt.Filter != "" && !strings.EqualFold(rt.Filter, filterCanon[q.Filter]) {
			return false
		}
		if rt.Scope != 0 && int64(rt.Scope) != q.Scope {
			return false
		}
		return true
	}
	return false
}

// refServe returns the index of the registration that must serve q, or -1 for the built-in refusal.
func refServe(table []routeSpec, q *codec.Req) int {
	for i, rt := range table {
		if rt.Kind != "default" && rt.Kind != "unbind" && refMatch(rt, q) {
			return i
		}
	}
	def := -1
	for i, rt := range table {
		if rt.Kind == "default" {
			def = i
		}
	}
	return def
}

var respTagOf = map[string]int{"bind": codec.AppBindResponse, "search": codec.AppSearchDone, "modify": codec.AppModifyResponse, "add": codec.AppAddResponse, "delete": codec.AppDelResponse, "extended": codec.AppExtendedResp}

// buildMux registers the table on a fresh Mux. With routerAfter >= 0 the mux is handed to a fresh Server
// (Server.Router) after that many registrations, the rest is registered afterwards, and the router returned
// is the one the server would give a new connection.
func buildMux(table []routeSpec, rec *[]int, routerAfter int) (*gldap.Mux, error) {
	mux, err := gldap.NewMux()
	if err != nil {
		return nil, err
	}
	var srv *gldap.Server
	setRouter := func() error {
		s, err := gldap.NewServer(gldap.WithLogger(quietLogger))
		if err != nil {
			return err
		}
		srv = s
		return s.Router(mux)
	}
	for i, rt := range table {
		i := i
		if i == routerAfter {
			if err := setRouter(); err != nil {
				return nil, err
			}
		}
		h := func(w *gldap.ResponseWriter, r *gldap.Request) { *rec = append(*rec, i) }
		var err error
		switch rt.Kind {
		case "bind":
			err = mux.Bind(h)
		case "search":
			var opts []gldap.Option
			if rt.Base != "" || rt.Explicit {
				opts = append(opts, gldap.WithBaseDN(rt.Base))
			}
			if rt.Filter != "" || rt.Explicit {
				opts = append(opts, gldap.WithFilter(rt.Filter))
			}
			if rt.Scope != 0 || rt.Explicit {
				opts = append(opts, gldap.WithScope(gldap.Scope(rt.Scope)))
			}
			err = mux.Search(h, opts...)
		case "extended":
			err = mux.ExtendedOperation(h, gldap.ExtendedOperationName(rt.Name))
		case "modify":
			err = mux.Modify(h)
		case "add":
			err = mux.Add(h)
		case "delete":
			err = mux.Delete(h)
		case "default":
			err = mux.DefaultRoute(h)
		case "unbind":
			err = mux.Unbind(h)
		}
		if err != nil {
			return nil, err
		}
	}
	if routerAfter == len(table) {
		if err := setRouter(); err != nil {
			return nil, err
		}
	}
	if srv != nil {
		return gldap.VServerRouter(srv), nil
	}
	return mux, nil
}

func classOf(q *codec.Req) string {
	if q.Op == "search" {
		return fmt.Sprintf("search(%s,%s,%d)", q.DN, q.Filter, q.Scope)
	}
	if q.Op == "extended" {
		return "extended(" + q.Name + ")"
	}
	return q.Op
}

var refusalSeen = map[string]bool{}

// c03table checks one route table: directly on the Mux, and through a Server that was given the mux before
// the first registration, after the last one and (thorough) at every point in between.
func c03table(c *Ctx, table []routeSpec, verbose bool) {
	c03tableVia(c, table, -1)
	c03tableVia(c, table, 0)
	if len(table) > 0 {
		c03tableVia(c, table, len(table))
	}
	if c.Thorough() {
		for j := 1; j < len(table); j++ {
			c03tableVia(c, table, j)
		}
	}
}

func c03tableVia(c *Ctx, table []routeSpec, routerAfter int) {
	c.Count("tables", 1)
	c.Count("registrations", int64(len(table)))
	var rec []int
	var mux *gldap.Mux
	var err error
	if k := try(func() { mux, err = buildMux(table, &rec, routerAfter) }); k != "" || err != nil {
		c.Report("registering a route fails: "+k, fmt.Sprintf("%v: %v", table, err), c03rep{Table: table, RouterAfter: routerAfter})
		return
	}
	for qi, q := range c03reqs {
		c.Count("dispatches", 1)
		rec = rec[:0]
		want := refServe(table, q)
		var out []byte
		var derr error
		k := try(func() {
			vc, mc, e := newSeam(c03reqBytes[qi], 3, mux, quietLogger)
			if e != nil {
				derr = e
				return
			}
			req, e := vc.ReadRequest(9)
			if e != nil {
				derr = e
				return
			}
			w, e := vc.NewResponseWriter(9)
			if e != nil {
				derr = e
				return
			}
			gldap.VServe(mux, w, req)
			out = append([]byte(nil), mc.Out.Bytes()...)
		})
		rep := c03rep{Table: table, Request: q, RouterAfter: routerAfter}
		desc := func() string {
			via := ""
			if routerAfter >= 0 {
				via = fmt.Sprintf(" (Server.Router called after %d of %d registrations)", routerAfter, len(table))
			}
			return fmt.Sprintf("table=%v request=%s%s", table, classOf(q), via)
		}
		if k != "" || derr != nil {
			c.Report("dispatch fails: "+k, fmt.Sprintf("%s: %v", desc(), derr), rep)
			continue
		}
		switch {
		case want >= 0:
			if len(rec) != 1 || rec[0] != want {
				kind := "no handler ran"
				if len(rec) > 1 {
					kind = "more than one handler ran"
				} else if len(rec) == 1 {
					kind = fmt.Sprintf("a %s route served it instead of the first matching %s route", table[rec[0]].Kind, table[want].Kind)
					if table[rec[0]].Kind == table[want].Kind {
						kind = fmt.Sprintf("a later/earlier %s route served it instead of the first matching one", table[want].Kind)
					}
				}
				c.Outcome(q.Op + " WRONG-HANDLER")
				c.Report("wrong dispatch for a "+q.Op+" request: "+kind, fmt.Sprintf("%s: handlers run %v, expected registration #%d", desc(), rec, want), rep)
				continue
			}
			if len(out) != 0 {
				c.Report("gldap itself wrote a response although a handler was dispatched", desc(), rep)
				continue
			}
			if table[want].Kind == "default" {
				c.Outcome(q.Op + " -> default route")
			} else {
				c.Outcome(fmt.Sprintf("%s -> route at position %d of %d", q.Op, want, len(table)))
			}
		default:
			if len(rec) != 0 {
				c.Outcome(q.Op + " HANDLED-WITHOUT-MATCH")
				c.Report("a handler ran for a "+q.Op+" request that no route matches", fmt.Sprintf("%s: handlers run %v", desc(), rec), rep)
				continue
			}
			frames, left, ferr := codec.Frames(out)
			if ferr != nil || len(left) != 0 || len(frames) != 1 {
				c.Report("built-in refusal is not exactly one LDAPMessage (request silently dropped or garbage)", fmt.Sprintf("%s: %d frames, wire %x", desc(), len(frames), trunc2(out)), rep)
				continue
			}
			resp, err := codec.ParseResponse(frames[0])
			if err != nil {
				c.Report("built-in refusal is malformed", fmt.Sprintf("%s: %v", desc(), err), rep)
				continue
			}
			if resp.MsgID != q.MsgID || resp.Code != 53 {
				c.Report("built-in refusal has the wrong message ID or result code", fmt.Sprintf("%s: id %d (want %d) code %d (want 53)", desc(), resp.MsgID, q.MsgID, resp.Code), rep)
				continue
			}
			if resp.Tag != respTagOf[q.Op] {
				c.Outcome(q.Op + " refusal with foreign response type")
				c.Report(fmt.Sprintf("built-in refusal for a %s request has protocolOp tag %d, not the %s response tag %d", q.Op, resp.Tag, q.Op, respTagOf[q.Op]), desc(), rep)
				// also show what a conforming client makes of it (once per operation)
				if !refusalSeen[q.Op] {
					refusalSeen[q.Op] = true
					res := goLdapCompletes(q.Op, resp.Tag)
					c.Outcome(q.Op + " refusal: go-ldap " + res)
				}
				continue
			}
			if !refusalSeen[q.Op] {
				refusalSeen[q.Op] = true
				res := goLdapCompletes(q.Op, resp.Tag)
				c.Outcome(q.Op + " refusal: go-ldap " + res)
				if res != "final:53" {
					c.Report("a conforming go-ldap "+q.Op+" call does not recognise the built-in refusal as the final answer", fmt.Sprintf("%s: go-ldap outcome %s", desc(), res), rep)
					continue
				}
			}
			c.Outcome(q.Op + " -> built-in refusal")
		}
	}
}

// goLdapCompletes runs a real go-ldap call of the operation and answers it with an unwillingToPerform
// LDAPResult under the given protocolOp tag. Returns "final:<code>" when the call recognises it as the
// final answer, "waiting" when it is still blocked after the answer (the connection is then closed).
func goLdapCompletes(op string, tag int) string {
	c1, c2 := net.Pipe()
	defer c1.Close()
	defer c2.Close()
	lc := ldap.NewConn(c1, false)
	lc.Start()
	defer lc.Close()
	done := make(chan error, 1)
	var once sync.Once
	answered := make(chan struct{})
	go func() {
		var buf []byte
		tmp := make([]byte, 65536)
		for {
			n, err := c2.Read(tmp)
			buf = append(buf, tmp[:n]...)
			if fr, _, _ := codec.Frames(buf); len(fr) > 0 {
				once.Do(func() {
					nn, _, _ := codec.ParseOne(fr[0])
					id, _ := codec.DecInt(nn.Kids[0].Content)
					c2.Write(codec.Seq(codec.Int(id), codec.Cons(codec.Application, tag, codec.Enum(53), codec.Octet(""), codec.Octet("No matching handler found"))).Bytes())
					close(answered)
				})
			}
			if err != nil {
				return
			}
		}
	}()
	go func() {
		switch op {
		case "bind":
			done <- lc.Bind("cn=a", "p")
		case "search":
			_, err := lc.Search(ldap.NewSearchRequest("dc=a", 2, 0, 0, 0, false, "(cn=x)", nil, nil))
			done <- err
		case "modify":
			mr := ldap.NewModifyRequest("cn=a", nil)
			mr.Replace("mail", []string{"v"})
			done <- lc.Modify(mr)
		case "add":
			ar := ldap.NewAddRequest("cn=a", nil)
			ar.Attribute("mail", []string{"v"})
			done <- lc.Add(ar)
		case "delete":
			done <- lc.Del(ldap.NewDelRequest("cn=a", nil))
		case "extended":
			_, err := lc.WhoAmI(nil)
			done <- err
		}
	}()
	select {
	case <-answered:
	case <-time.After(20 * time.Second):
		return "harness-timeout"
	}
	select {
	case err := <-done:
		return classifyLdapErr(err)
	case <-time.After(10 * time.Second):
		// still blocked 10 s after the final answer was delivered: it is waiting for something else
		c2.Close()
		<-done
		return "waiting"
	}
}

func classifyLdapErr(err error) string {
	if err == nil {
		return "final:0"
	}
	if le, ok := err.(*ldap.Error); ok {
		if le.ResultCode >= 200 {
			return fmt.Sprintf("client-side-error:%d", le.ResultCode)
		}
		return fmt.Sprintf("final:%d", le.ResultCode)
	}
	return "error:" + err.Error()
}

func c03run(c *Ctx) {
	initFilters()
	c03reqs = c03requests()
	for _, q := range c03reqs {
		c03reqBytes = append(c03reqBytes, q.Bytes())
	}
	alpha := routeAlphabet()
	maxK := 2
	if c.Thorough() {
		maxK = 3
	}
	var rec func(table []routeSpec)
	rec = func(table []routeSpec) {
		if c.Mine() {
			if c.Expired() {
				return
			}
			c03table(c, table, false)
			if c.n%7001 == 3 || len(c.Samp) < 2 {
				c.Sample(map[string]interface{}{"table": append([]routeSpec(nil), table...), "requests": len(c03reqs), "first_request_hex": hex.EncodeToString(trunc2(c03reqBytes[1]))})
			}
		}
		if len(table) == maxK {
			return
		}
		for _, rt := range alpha {
			rec(append(append([]routeSpec(nil), table...), rt))
		}
	}
	rec(nil)
}
