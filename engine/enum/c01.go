package main

import (
	"encoding/hex"
	"encoding/json"
	"fmt"
	"os"
	"reflect"
	"strings"

	ber "github.com/go-asn1-ber/asn1-ber"
	"github.com/go-ldap/ldap/v3"
	"github.com/jimlambrt/gldap"
	"verif/codec"
	"verif/ev"
)

// C01 — a decoded request carries exactly what the client sent.

func init() {
	checks["C01"] = &Check{
		Shards: func(tier string) int { return 32 },
		Run:    c01run,
		Finalize: func(m *shardOut, r *ev.Run) {
			r.Cov["states"] = m.Counts["requests"]
			r.Cov["transitions"] = m.Counts["decodes"]
			r.Cov["traces_validated_against_impl"] = m.Counts["decodes"]
			r.Cov["evaluations"] = m.Counts["decodes"]
			r.Cov["distinct_nontrivial"] = len(m.Outc)
			r.Cov["rule"] = "every typed request of the field alphabets is encoded by the raw BER builder (and, for the subset go-ldap can express, by a real go-ldap client whose bytes are captured), decoded through the real (*conn).readRequest and compared field by field with the typed request; ordered pairs / triples of requests are decoded one after the other and every earlier message is compared again afterwards; a SCHED part (coverage key sched_part) sends pipelined requests through the real connection loop under the scheduler: every handler must be handed the message of its own request; distinct_nontrivial = distinct (operation, shape class) pairs where shape class = numbers of list elements / controls / outcome"
			r.Cov["samples"] = m.Samp
			r.Cov["per_family"] = m.Counts
			r.Cov["outcomes"] = m.Outc
			r.Cov["exhaustive"] = !m.CapHit
			attachSecondary(r)
			r.Assume = []string{
				"filters are encoded by go-ldap's CompileFilter and compared as DecompileFilter(CompileFilter(sent)) (the property says 'semantically')",
				"Extended and Unbind messages expose no Controls field: controls on them are not compared (weaker reading)",
				"go-ldap numbers its own messages: captured requests always have message ID 1; message IDs are exercised through the raw builder",
				"a decode panic for bind version != 3 is counted under C02, not here (no handler is reached)",
			}
		},
		Replay: func(p json.RawMessage, c *Ctx) {
			var rep c01rep
			json.Unmarshal(p, &rep)
			if rep.Req != nil {
				prepFilter(rep.Req)
				c01check(c, rep.Req, "raw")
			} else if rep.Hex != "" {
				b, _ := hex.DecodeString(rep.Hex)
				c01unsupported(c, b, rep.Note)
			}
		},
	}
}

type c01rep struct {
	Req  *codec.Req `json:"req,omitempty"`
	Hex  string     `json:"hex,omitempty"`
	Note string     `json:"note,omitempty"`
}

var c01filters = []string{
	"(cn=x)", "(&(cn=x)(sn=y))", "(|(cn=x)(sn=y))", "(!(cn=x))", "(cn=a*b*c)", "(cn=*b*)", "(cn=a*)", "(cn=*c)",
	"(cn>=x)", "(cn<=x)", "(cn=*)", "(cn~=x)", "(cn:dn:2.4.6.8.10:=x)", "(:1.2.3:=x)",
	"(&(objectClass=person)(|(cn=al*)(mail=*@example.com))(!(uid=0)))", `(cn=a\2ab\28c\29)`,
}

var filterCanon = map[string]string{}
var filterBER = map[string][]byte{}

var filtersExcluded []string

// initFilters keeps the filters that go-ldap compiles and that round-trip through the wire form
// (DecodePacket(bytes) -> DecompileFilter -> CompileFilter gives the same bytes): the property's precondition.
func initFilters() {
	var keep []string
	for _, f := range c01filters {
		p, err := ldap.CompileFilter(f)
		if err != nil {
			panic("harness: filter does not compile: " + f)
		}
		wire := ber.DecodePacket(p.Bytes())
		back, err := ldap.DecompileFilter(wire)
		if err != nil {
			filtersExcluded = append(filtersExcluded, f)
			continue
		}
		p2, err := ldap.CompileFilter(back)
		if err != nil || !reflect.DeepEqual(p2.Bytes(), p.Bytes()) {
			filtersExcluded = append(filtersExcluded, f)
			continue
		}
		filterCanon[f] = back
		filterBER[f] = p.Bytes()
		keep = append(keep, f)
	}
	c01filters = keep
}

func prepFilter(r *codec.Req) {
	if r.Op == "search" {
		if len(filterBER) == 0 {
			initFilters()
		}
		if b, ok := filterBER[r.Filter]; ok {
			r.FilterBER = b
		} else {
			p, err := ldap.CompileFilter(r.Filter)
			if err != nil {
				panic(err)
			}
			r.FilterBER = p.Bytes()
			filterCanon[r.Filter], _ = ldap.DecompileFilter(ber.DecodePacket(p.Bytes()))
		}
	}
}

func shapeOf(r *codec.Req) string {
	switch r.Op {
	case "search":
		return fmt.Sprintf("search attrs=%d ctl=%d", len(r.Attrs), len(r.Controls))
	case "modify":
		s := fmt.Sprintf("modify changes=%d ctl=%d vals=", len(r.Changes), len(r.Controls))
		for _, ch := range r.Changes {
			s += fmt.Sprint(len(ch.Vals))
		}
		return s
	case "add":
		s := fmt.Sprintf("add attrs=%d ctl=%d vals=", len(r.Attrs2), len(r.Controls))
		for _, a := range r.Attrs2 {
			s += fmt.Sprint(len(a.Vals))
		}
		return s
	}
	return fmt.Sprintf("%s ctl=%d", r.Op, len(r.Controls))
}

func sliceEq(a, b []string) bool {
	if len(a) != len(b) {
		return false
	}
	for i := range a {
		if a[i] != b[i] {
			return false
		}
	}
	return true
}

// c01diff returns (field, detail) of the first difference between the decoded message and the reference.
func c01diff(r *codec.Req, req *gldap.Request) (string, string) {
	msg := gldap.VMessage(req)
	if msg == nil {
		return "message", "nil message"
	}
	if msg.GetID() != r.MsgID {
		return "messageID", fmt.Sprintf("got %d want %d", msg.GetID(), r.MsgID)
	}
	switch r.Op {
	case "bind":
		m, err := req.GetSimpleBindMessage()
		if err != nil {
			return "kind", fmt.Sprintf("%T: %v", msg, err)
		}
		if m.AuthChoice != gldap.SimpleAuthChoice {
			return "bind.AuthChoice", string(m.AuthChoice)
		}
		if m.UserName != r.DN {
			return "bind.UserName", fmt.Sprintf("got %q want %q", trunc(m.UserName), trunc(r.DN))
		}
		if string(m.Password) != r.Password {
			return "bind.Password", fmt.Sprintf("got %q want %q", trunc(string(m.Password)), trunc(r.Password))
		}
		if d := ctlsDiff(m.Controls, r.Controls); d != "" {
			return "bind.Controls", d
		}
	case "search":
		m, err := req.GetSearchMessage()
		if err != nil {
			return "kind", fmt.Sprintf("%T: %v", msg, err)
		}
		if m.BaseDN != r.DN {
			return "search.BaseDN", fmt.Sprintf("got %q want %q", trunc(m.BaseDN), trunc(r.DN))
		}
		if int64(m.Scope) != r.Scope {
			return "search.Scope", fmt.Sprintf("got %d want %d", m.Scope, r.Scope)
		}
		if int64(m.DerefAliases) != r.Deref {
			return "search.DerefAliases", fmt.Sprintf("got %d want %d", m.DerefAliases, r.Deref)
		}
		if m.SizeLimit != r.Size {
			return "search.SizeLimit", fmt.Sprintf("got %d want %d (time limit sent: %d)", m.SizeLimit, r.Size, r.Time)
		}
		if m.TimeLimit != r.Time {
			return "search.TimeLimit", fmt.Sprintf("got %d want %d (size limit sent: %d)", m.TimeLimit, r.Time, r.Size)
		}
		if m.TypesOnly != r.TypesOnly {
			return "search.TypesOnly", fmt.Sprintf("got %v want %v", m.TypesOnly, r.TypesOnly)
		}
		if m.Filter != filterCanon[r.Filter] {
			return "search.Filter", fmt.Sprintf("got %q want %q", m.Filter, filterCanon[r.Filter])
		}
		if !sliceEq(m.Attributes, r.Attrs) {
			return "search.Attributes", fmt.Sprintf("got %q want %q", m.Attributes, r.Attrs)
		}
		if d := ctlsDiff(m.Controls, r.Controls); d != "" {
			return "search.Controls", d
		}
	case "modify":
		m, err := req.GetModifyMessage()
		if err != nil {
			return "kind", fmt.Sprintf("%T: %v", msg, err)
		}
		if m.DN != r.DN {
			return "modify.DN", fmt.Sprintf("got %q want %q", trunc(m.DN), trunc(r.DN))
		}
		if len(m.Changes) != len(r.Changes) {
			return "modify.Changes", fmt.Sprintf("%d changes decoded, %d sent", len(m.Changes), len(r.Changes))
		}
		for i, ch := range r.Changes {
			g := m.Changes[i]
			if g.Operation != ch.Op {
				return "modify.Changes[].Operation", fmt.Sprintf("change %d: got %d want %d", i, g.Operation, ch.Op)
			}
			if g.Modification.Type != ch.Type {
				return "modify.Changes[].Type", fmt.Sprintf("change %d: got %q want %q", i, g.Modification.Type, ch.Type)
			}
			if len(g.Modification.Vals) != len(ch.Vals) {
				return fmt.Sprintf("modify.Changes[].Vals: %d client values arrive as %d elements", len(ch.Vals), len(g.Modification.Vals)), fmt.Sprintf("change %d: got %q want %q", i, g.Modification.Vals, ch.Vals)
			}
			for j, v := range ch.Vals {
				gv := g.Modification.Vals[j]
				if gv == v {
					continue
				}
				if cv, err := gldap.ConvertString(gv); err == nil && len(cv) == 1 && cv[0] == v {
					continue
				}
				return "modify.Changes[].Vals element", fmt.Sprintf("change %d value %d: got %q want %q (plain or BER-wrapped)", i, j, trunc(gv), trunc(v))
			}
		}
		if d := ctlsDiff(m.Controls, r.Controls); d != "" {
			return "modify.Controls", d
		}
	case "add":
		m, err := req.GetAddMessage()
		if err != nil {
			return "kind", fmt.Sprintf("%T: %v", msg, err)
		}
		if m.DN != r.DN {
			return "add.DN", fmt.Sprintf("got %q want %q", trunc(m.DN), trunc(r.DN))
		}
		if len(m.Attributes) != len(r.Attrs2) {
			return "add.Attributes", fmt.Sprintf("%d attributes decoded, %d sent", len(m.Attributes), len(r.Attrs2))
		}
		for i, a := range r.Attrs2 {
			g := m.Attributes[i]
			if g.Type != a.Type {
				return "add.Attributes[].Type", fmt.Sprintf("attr %d: got %q want %q", i, g.Type, a.Type)
			}
			if !sliceEq(g.Vals, a.Vals) {
				return "add.Attributes[].Vals", fmt.Sprintf("attr %d: got %q want %q", i, g.Vals, a.Vals)
			}
		}
		if d := ctlsDiff(m.Controls, r.Controls); d != "" {
			return "add.Controls", d
		}
	case "delete":
		m, err := req.GetDeleteMessage()
		if err != nil {
			return "kind", fmt.Sprintf("%T: %v", msg, err)
		}
		if m.DN != r.DN {
			return "delete.DN", fmt.Sprintf("got %q want %q", trunc(m.DN), trunc(r.DN))
		}
		if d := ctlsDiff(m.Controls, r.Controls); d != "" {
			return "delete.Controls", d
		}
	case "extended":
		m, ok := msg.(*gldap.ExtendedOperationMessage)
		if !ok {
			return "kind", fmt.Sprintf("%T", msg)
		}
		if string(m.Name) != r.Name {
			return "extended.Name", fmt.Sprintf("got %q want %q", m.Name, r.Name)
		}
	case "unbind":
		if _, err := req.GetUnbindMessage(); err != nil {
			return "kind", fmt.Sprintf("%T: %v", msg, err)
		}
	}
	return "", ""
}

func c01check(c *Ctx, r *codec.Req, enc string) {
	var b []byte
	if enc == "raw" {
		b = r.Bytes()
	} else {
		var err error
		b, err = capture(r)
		if err == errNoCapture {
			return
		}
		if err != nil {
			fmt.Fprintf(nullW{}, "%v", err)
			c.Count("capture_errors", 1)
			return
		}
		c.Count("captured", 1)
		if !reflect.DeepEqual(b, r.Bytes()) {
			c.Count("encoder_byte_differences", 1)
			if os.Getenv("VERIF_DEBUG") != "" {
				fmt.Fprintf(os.Stderr, "ENCDIFF %s\n  raw   %x\n  goldap %x\n", shapeOf(r), r.Bytes(), b)
			}
		}
	}
	c.Count("requests", 1)
	c.Count("requests."+r.Op, 1)
	// the server's log level must not change what a handler receives: decode under an error-level and under a
	// debug-level logger (gldap dumps - and so walks - every packet it reads when the level is debug)
	for _, debug := range []bool{false, true} {
		c01checkOne(c, r, enc, b, debug)
	}
	if c.n%20011 == 5 || len(c.Samp) < 2 {
		c.Sample(map[string]interface{}{"encoder": enc, "request": r, "hex": hex.EncodeToString(trunc2(b))})
	}
}

func c01checkOne(c *Ctx, r *codec.Req, enc string, b []byte, debug bool) {
	c.Count("decodes", 1)
	var req *gldap.Request
	var err error
	k := try(func() { req, err = decode(b, 1, debug) })
	shape := shapeOf(r)
	rep := c01rep{Req: r}
	if debug {
		enc += "+debug-logger"
		rep.Note = "debug-level logger"
	}
	switch {
	case k != "":
		c.Outcome(enc + " " + shape + " :panic")
		c.Report("well-formed request makes the decoder panic: "+k, fmt.Sprintf("%s request %x", r.Op, trunc2(b)), rep)
	case err != nil:
		c.Outcome(enc + " " + shape + " :rejected")
		c.Report(fmt.Sprintf("well-formed %s request rejected (%s)", r.Op, shapeClass(r)), fmt.Sprintf("%v; bytes %x", err, trunc2(b)), rep)
	default:
		f, d := c01diff(r, req)
		if f != "" {
			c.Outcome(enc + " " + shape + " :differs")
			what := "differs from what the client encoded"
			if debug {
				what += " when the server logs at debug level"
			}
			c.Report(fmt.Sprintf("%s %s", f, what), fmt.Sprintf("encoder=%s %s; bytes %x", enc, d, trunc2(b)), rep)
		} else {
			c.Outcome(enc + " " + shape + " :equal")
		}
	}
}

type nullW struct{}

func (nullW) Write(p []byte) (int, error) { return len(p), nil }

func shapeClass(r *codec.Req) string {
	s := ""
	if len(r.Controls) > 0 {
		s = "with controls " + r.Controls[0].Kind
		if r.Controls[0].NoValue {
			s += "(no value)"
		}
	}
	return s
}

func c01unsupported(c *Ctx, b []byte, note string) {
	c.Count("requests", 1)
	c.Count("decodes", 1)
	c.Count("requests.unsupported", 1)
	var req *gldap.Request
	var err error
	k := try(func() { req, err = decode(b, 1, false) })
	switch {
	case k != "":
		c.Outcome("unsupported:panic (counted under C02)")
	case err != nil || req == nil:
		c.Outcome("unsupported:rejected")
	default:
		msg := gldap.VMessage(req)
		if e, ok := msg.(*gldap.ExtendedOperationMessage); ok && e.Name == gldap.ExtendedOperationUnknown {
			c.Outcome("unsupported:delivered as unknown extended operation")
			return
		}
		c.Outcome("unsupported:delivered")
		c.Report(fmt.Sprintf("unsupported request delivered as %T", msg), fmt.Sprintf("%s: %x", note, trunc2(b)), c01rep{Hex: hex.EncodeToString(b), Note: note})
	}
}

// c01sequences: a decoded request must still carry what its client sent after further requests have been
// decoded (by the same goroutine, as a connection's read loop does): every ordered pair, and every ordered
// triple of searches, over a set of requests whose list-valued fields differ in length and content.
func c01sequences(c *Ctx) {
	mkCtl := func(k string) []codec.Control {
		return []codec.Control{{Kind: "string", OID: "1.2.3." + k, Crit: true, Value: "v" + k, Expire: -1, Grace: -1, Err: -1}}
	}
	set := []*codec.Req{
		{Op: "search", MsgID: 2, DN: "dc=a", Scope: 2, Filter: "(cn=x)", Attrs: []string{"cn", "mail", "uid"}},
		{Op: "search", MsgID: 3, DN: "dc=b", Scope: 1, Filter: "(cn=x)", Attrs: []string{"objectClass", "memberOf"}},
		{Op: "search", MsgID: 4, DN: "dc=c", Scope: 0, Filter: "(cn=x)", Attrs: []string{"sn"}, Controls: mkCtl("1")},
		{Op: "search", MsgID: 5, DN: "dc=d", Scope: 2, Filter: "(cn=x)", Attrs: []string{"a", "b", "c", "d", "e"}},
		{Op: "modify", MsgID: 6, DN: "cn=a", Changes: []codec.Change{{Op: 2, Type: "mail", Vals: []string{"m1", "m2"}}, {Op: 1, Type: "description"}}},
		{Op: "modify", MsgID: 7, DN: "cn=b", Changes: []codec.Change{{Op: 0, Type: "sn", Vals: []string{"s"}}}, Controls: mkCtl("2")},
		{Op: "add", MsgID: 8, DN: "cn=c", Attrs2: []codec.Attr{{Type: "cn", Vals: []string{"c"}}, {Type: "mail", Vals: []string{"x", "y"}}}},
		{Op: "add", MsgID: 9, DN: "cn=d", Attrs2: []codec.Attr{{Type: "objectClass", Vals: []string{"top", "person", "inetOrgPerson"}}}},
		{Op: "bind", MsgID: 10, Version: 3, DN: "cn=e", Password: "pw-e", Controls: mkCtl("3")},
		{Op: "bind", MsgID: 11, Version: 3, DN: "cn=f", Password: "another"},
		{Op: "delete", MsgID: 12, DN: "cn=g", Controls: mkCtl("4")},
		{Op: "extended", MsgID: 13, Name: codec.OIDWhoAmI},
	}
	for _, r := range set {
		prepFilter(r)
	}
	run := func(seq []*codec.Req) {
		if !c.Mine() {
			return
		}
		c.Count("sequences", 1)
		var got []*gldap.Request
		for _, r := range seq {
			c.Count("decodes", 1)
			var req *gldap.Request
			var err error
			if k := try(func() { req, err = decode(r.Bytes(), 1, false) }); k != "" || err != nil || req == nil {
				return // reported by the single-request checks
			}
			got = append(got, req)
		}
		for i, r := range seq {
			if f, d := c01diff(r, got[i]); f != "" {
				var ops []string
				for _, q := range seq {
					ops = append(ops, q.Op)
				}
				c.Outcome("sequence " + strings.Join(ops, ",") + " :differs")
				c.Report(fmt.Sprintf("%s of an already decoded request differs from what its client sent once later requests have been decoded", f), fmt.Sprintf("sequence %v, request #%d: %s", ops, i+1, d), c01rep{Req: r, Note: "sequence " + strings.Join(ops, ",")})
				return
			}
		}
		c.Outcome("sequence of " + fmt.Sprint(len(seq)) + " :equal")
	}
	for _, a := range set {
		for _, b := range set {
			run([]*codec.Req{a, b})
		}
	}
	for _, a := range set[:4] {
		for _, b := range set[:4] {
			for _, d := range set[:4] {
				run([]*codec.Req{a, b, d})
			}
		}
	}
}

// c01longLived: one connection that stays open and carries many requests, small and large, up to a total of
// several MiB (16 MiB in the thorough tier): every one of them is decoded like the first.
func c01longLived(c *Ctx) {
	if !c.Mine() {
		return
	}
	type step struct {
		n    int // requests
		size int // bytes of the one attribute value
	}
	plans := [][]step{{{300, 10}}, {{40, 65536}, {20, 10}}, {{6, 1 << 20}, {10, 100}}}
	if c.Thorough() {
		plans = append(plans, []step{{16, 1 << 20}, {10, 100}}, []step{{70000, 40}})
	}
	for pi, plan := range plans {
		var reqs []*codec.Req
		var stream []byte
		id := int64(1)
		for _, st := range plan {
			val := strings.Repeat("v", st.size)
			for i := 0; i < st.n; i++ {
				id++
				r := &codec.Req{Op: "add", MsgID: id, DN: fmt.Sprintf("cn=e%d,dc=a", id), Attrs2: []codec.Attr{{Type: "cn", Vals: []string{fmt.Sprintf("e%d", id)}}, {Type: "description", Vals: []string{val}}}}
				reqs = append(reqs, r)
				stream = append(stream, r.Bytes()...)
			}
		}
		c.Count("long_lived_connections", 1)
		vc, _, err := newSeam(stream, 7, nil, quietLogger)
		if err != nil {
			continue
		}
		for i, r := range reqs {
			c.Count("decodes", 1)
			var req *gldap.Request
			var derr error
			k := try(func() { req, derr = vc.ReadRequest(i + 1) })
			if k != "" || derr != nil || req == nil {
				c.Outcome("long-lived connection :rejected")
				c.Report("a well-formed request is rejected on a connection that has carried many requests", fmt.Sprintf("plan %d: request #%d of %d after %d bytes on the connection: %v %s", pi, i+1, len(reqs), len(stream), derr, k), c01rep{Req: &codec.Req{Op: r.Op, MsgID: r.MsgID, DN: r.DN}, Note: fmt.Sprintf("long-lived connection plan %d", pi)})
				break
			}
			if f, d := c01diff(r, req); f != "" {
				c.Outcome("long-lived connection :differs")
				c.Report(fmt.Sprintf("%s differs from what the client sent on a connection that has carried many requests", f), fmt.Sprintf("plan %d: request #%d: %s", pi, i+1, trunc3(d)), c01rep{Req: &codec.Req{Op: r.Op, MsgID: r.MsgID, DN: r.DN}, Note: fmt.Sprintf("long-lived connection plan %d", pi)})
				break
			}
		}
		c.Outcome("long-lived connection :served")
	}
}

func trunc3(s string) string {
	if len(s) > 300 {
		return s[:300] + "..."
	}
	return s
}

func c01run(c *Ctx) {
	initFilters()
	c01sequences(c)
	c01longLived(c)
	if c.Shard == 0 {
		c.Count("filters_in_alphabet", int64(len(c01filters)))
		c.Count("filters_excluded_not_roundtripping_in_go_ldap", int64(len(filtersExcluded)))
	}
	th := c.Thorough()
	S := strAlpha(th)
	short := []string{"", "a", "\x00\xff\x04"}
	ctlLevel := 1
	if th {
		ctlLevel = 2
	}
	ctls := controlAlpha(ctlLevel)
	// control lists: none, singles, ordered pairs (pairs over the level-0 alphabet in quick, level-1 in thorough)
	var ctlLists [][]codec.Control
	ctlLists = append(ctlLists, nil)
	for _, ct := range ctls {
		ctlLists = append(ctlLists, []codec.Control{ct})
	}
	pairBase := controlAlpha(0)
	if th {
		pairBase = controlAlpha(1)
	}
	nSingles := len(ctlLists)
	for _, a := range pairBase {
		for _, b := range pairBase {
			ctlLists = append(ctlLists, []codec.Control{a, b})
		}
	}
	emit := func(r *codec.Req) {
		if !c.Mine() {
			return
		}
		prepFilter(r)
		c01check(c, r, "raw")
	}
	emitCap := func(r *codec.Req) {
		if !c.Mine() {
			return
		}
		prepFilter(r)
		r.MsgID = 1
		c01check(c, r, "go-ldap")
	}

	// ---- bind
	for _, id := range intAlpha {
		for _, dn := range S {
			for _, pw := range S {
				emit(&codec.Req{Op: "bind", MsgID: id, Version: 3, DN: dn, Password: pw})
			}
		}
	}
	for _, cl := range ctlLists {
		for _, dn := range short {
			emit(&codec.Req{Op: "bind", MsgID: 77, Version: 3, DN: dn, Password: "p", Controls: cl})
		}
	}
	// ---- search
	type lim struct{ s, t int64 }
	var lims []lim
	for i, s := range intAlpha {
		for j, t := range intAlpha {
			if th || i == j || (i+j)%3 != 0 {
				lims = append(lims, lim{s, t})
			}
		}
	}
	attrLists := [][]string{nil, {"cn"}, {"*"}, {"cn", "mail"}, {"mail", "cn"}, {"cn", "cn"}, {"", "\x00"}, {"1.1"}}
	for _, id := range intAlpha {
		for _, base := range S {
			for scope := int64(0); scope < 3; scope++ {
				for deref := int64(0); deref < 4; deref++ {
					for _, to := range []bool{false, true} {
						emit(&codec.Req{Op: "search", MsgID: id, DN: base, Scope: scope, Deref: deref, Size: 5, Time: 9, TypesOnly: to, Filter: "(cn=x)"})
					}
				}
			}
		}
	}
	for _, l := range lims {
		for _, f := range c01filters {
			for _, al := range attrLists {
				emit(&codec.Req{Op: "search", MsgID: 2, DN: "dc=a", Scope: 2, Deref: 1, Size: l.s, Time: l.t, TypesOnly: l.s%2 == 0, Filter: f, Attrs: al})
			}
		}
	}
	for _, cl := range ctlLists {
		for _, al := range [][]string{nil, {"cn", "mail"}} {
			emit(&codec.Req{Op: "search", MsgID: 3, DN: "dc=a", Scope: 1, Deref: 3, Size: 10, Time: 20, Filter: "(cn=*)", Attrs: al, Controls: cl})
		}
	}
	// ---- modify
	valLists := [][]string{nil, {"v"}, {""}, {"v", "w"}, {"w", "v"}, {"\x00\xff\x04", "v"}, {"\x04\x01a"}, {S[4]}}
	if th {
		valLists = append(valLists, []string{"a", "b", "c"}, []string{S[5]})
	}
	types := []string{"mail", "", "\x00"}
	var changes []codec.Change
	for op := int64(0); op < 4; op++ {
		for _, t := range types {
			for _, vl := range valLists {
				changes = append(changes, codec.Change{Op: op, Type: t, Vals: vl})
			}
		}
	}
	for _, dn := range S {
		for _, id := range []int64{0, 128, 1<<31 - 1} {
			emit(&codec.Req{Op: "modify", MsgID: id, DN: dn})
			for _, ch := range changes {
				emit(&codec.Req{Op: "modify", MsgID: id, DN: dn, Changes: []codec.Change{ch}})
			}
		}
	}
	for i, a := range changes {
		for j, b := range changes {
			if th || (i*7+j)%3 == 0 {
				emit(&codec.Req{Op: "modify", MsgID: 4, DN: "cn=a", Changes: []codec.Change{a, b}})
			}
		}
	}
	for _, cl := range ctlLists {
		emit(&codec.Req{Op: "modify", MsgID: 4, DN: "cn=a", Changes: []codec.Change{{Op: 2, Type: "mail", Vals: []string{"v"}}}, Controls: cl})
	}
	// ---- add
	var attrs []codec.Attr
	for _, t := range types {
		for _, vl := range valLists {
			attrs = append(attrs, codec.Attr{Type: t, Vals: vl})
		}
	}
	for _, dn := range S {
		for _, id := range []int64{0, 128, 1<<31 - 1} {
			emit(&codec.Req{Op: "add", MsgID: id, DN: dn})
			for _, a := range attrs {
				emit(&codec.Req{Op: "add", MsgID: id, DN: dn, Attrs2: []codec.Attr{a}})
			}
		}
	}
	for _, a := range attrs {
		for _, b := range attrs {
			emit(&codec.Req{Op: "add", MsgID: 5, DN: "cn=a", Attrs2: []codec.Attr{a, b}})
		}
	}
	for _, cl := range ctlLists {
		emit(&codec.Req{Op: "add", MsgID: 5, DN: "cn=a", Attrs2: []codec.Attr{{Type: "mail", Vals: []string{"v"}}}, Controls: cl})
	}
	if th {
		// thorough: the full product of limits x filters x attribute lists for every scope and alias setting
		for scope := int64(0); scope < 3; scope++ {
			for deref := int64(0); deref < 4; deref++ {
				for _, l := range lims {
					for _, f := range c01filters {
						for _, al := range attrLists {
							emit(&codec.Req{Op: "search", MsgID: 70000, DN: "ou=x,dc=a", Scope: scope, Deref: deref, Size: l.s, Time: l.t, TypesOnly: (l.s+l.t)%2 == 1, Filter: f, Attrs: al})
						}
					}
				}
			}
		}
		// three attributes / three changes
		for i, a := range attrs {
			for j, b := range attrs {
				for k, d := range attrs {
					if (i+j+k)%2 == 0 {
						emit(&codec.Req{Op: "add", MsgID: 5, DN: "cn=a", Attrs2: []codec.Attr{a, b, d}})
					}
				}
			}
		}
		for i, a := range changes {
			for j, b := range changes {
				if (i+j)%3 != 0 {
					continue
				}
				for k, d := range changes {
					if (i+k)%4 == 0 {
						emit(&codec.Req{Op: "modify", MsgID: 4, DN: "cn=a", Changes: []codec.Change{a, b, d}})
					}
				}
			}
		}
		// ordered control pairs over the full alphabet on every envelope that exposes controls
		for _, a := range ctls {
			for _, b := range ctls {
				cl := []codec.Control{a, b}
				emit(&codec.Req{Op: "bind", MsgID: 77, Version: 3, DN: "cn=a", Password: "p", Controls: cl})
				emit(&codec.Req{Op: "search", MsgID: 3, DN: "dc=a", Scope: 1, Deref: 3, Size: 10, Time: 20, Filter: "(cn=*)", Controls: cl})
				emit(&codec.Req{Op: "modify", MsgID: 4, DN: "cn=a", Changes: []codec.Change{{Op: 2, Type: "mail", Vals: []string{"v"}}}, Controls: cl})
				emit(&codec.Req{Op: "add", MsgID: 5, DN: "cn=a", Attrs2: []codec.Attr{{Type: "mail", Vals: []string{"v"}}}, Controls: cl})
				emit(&codec.Req{Op: "delete", MsgID: 6, DN: "cn=a", Controls: cl})
			}
		}
	}
	// ---- delete
	for _, id := range intAlpha {
		for _, dn := range S {
			emit(&codec.Req{Op: "delete", MsgID: id, DN: dn})
		}
	}
	for _, cl := range ctlLists {
		for _, dn := range short {
			emit(&codec.Req{Op: "delete", MsgID: 6, DN: dn, Controls: cl})
		}
	}
	// ---- extended
	names := []string{codec.OIDStartTLS, codec.OIDWhoAmI, "1.3.6.1.4.1.4203.1.11.1", "", "x", "Unknown", S[4]}
	for _, id := range intAlpha {
		for _, n := range names {
			emit(&codec.Req{Op: "extended", MsgID: id, Name: n})
			for _, v := range short {
				emit(&codec.Req{Op: "extended", MsgID: id, Name: n, HasValue: true, Value: v})
			}
		}
	}
	for _, cl := range ctlLists[:nSingles] {
		emit(&codec.Req{Op: "extended", MsgID: 7, Name: codec.OIDWhoAmI, Controls: cl})
	}
	// ---- unbind
	for _, id := range intAlpha {
		emit(&codec.Req{Op: "unbind", MsgID: id})
	}

	// ---- unsupported operations and bind versions
	supported := []int{codec.AppBindRequest, codec.AppUnbindRequest, codec.AppSearchRequest, codec.AppModifyRequest, codec.AppAddRequest, codec.AppDelRequest, codec.AppExtendedRequest}
	type ct struct{ class, tag int }
	var unsup []ct
	for tag := 0; tag <= 30; tag++ {
		isSup := false
		for _, st := range supported {
			isSup = isSup || st == tag
		}
		if !isSup {
			unsup = append(unsup, ct{codec.Application, tag})
		}
	}
	// tag numbers in BER's high-tag-number form, among them every number that is congruent to a supported
	// one modulo a power of two a narrowing conversion could introduce; and the supported numbers in the
	// three other tag classes
	for _, t := range []int{31, 33, 127, 129, 255, 257, 16383, 16384, 1<<31 - 1} {
		unsup = append(unsup, ct{codec.Application, t})
	}
	for _, mod := range []int{32, 64, 128, 256, 65536, 1 << 32} {
		for _, st := range supported {
			unsup = append(unsup, ct{codec.Application, st + mod})
		}
	}
	for _, class := range []int{codec.Universal, codec.Context, codec.Private} {
		for _, st := range supported {
			unsup = append(unsup, ct{class, st})
		}
	}
	for _, u := range unsup {
		tag := u.tag
		bodies := []*codec.Node{
			codec.Prim(u.class, tag, nil),
			codec.Prim(u.class, tag, []byte("cn=a")),
			codec.Prim(u.class, tag, codec.EncInt(3)),
			codec.Cons(u.class, tag),
			codec.Cons(u.class, tag, codec.Octet("cn=a")),
			codec.Cons(u.class, tag, codec.Int(3), codec.Octet("cn=a"), codec.CtxPrim(0, "p")),                                    // bind-shaped
			codec.Cons(u.class, tag, codec.Octet("cn=a"), codec.Seq(codec.Octet("cn"), codec.Octet("v"))),                         // compare-shaped
			codec.Cons(u.class, tag, codec.Octet("cn=a"), codec.Octet("cn=b"), codec.Bool(true)),                                  // modifyDN-shaped
			codec.Cons(u.class, tag, codec.Octet("cn=a"), codec.Seq(codec.Seq(codec.Octet("mail"), codec.Set(codec.Octet("v"))))), // add-shaped
			codec.Cons(u.class, tag, codec.CtxPrim(0, codec.OIDWhoAmI)),                                                           // extended-shaped
			codec.Cons(u.class, tag, codec.Octet("dc=a"), codec.Enum(2), codec.Enum(0), codec.Int(0), codec.Int(0), codec.Bool(false), codec.CtxPrim(7, "cn"), codec.Seq()), // search-shaped
		}
		for bi, body := range bodies {
			for _, id := range []int64{1, 128} {
				if !c.Mine() {
					continue
				}
				b := codec.Seq(codec.Int(id), body).Bytes()
				c01unsupported(c, b, fmt.Sprintf("class %d tag %d body#%d", u.class, tag, bi))
			}
		}
	}
	for _, ver := range []int64{0, 1, 2, 4, 127, 128, -1, 1 << 31} {
		for _, sasl := range []bool{false, true} {
			if !c.Mine() {
				continue
			}
			r := &codec.Req{Op: "bind", MsgID: 9, Version: ver, DN: "cn=a", Password: "p", Sasl: sasl}
			c01unsupported(c, r.Bytes(), fmt.Sprintf("bind version %d sasl=%v", ver, sasl))
		}
	}
	if c.Mine() {
		r := &codec.Req{Op: "bind", MsgID: 9, Version: 3, DN: "cn=a", Sasl: true}
		c01unsupported(c, r.Bytes(), "SASL bind version 3")
	}

	// ---- second encoder: go-ldap capture on the subset it can express
	capS := []string{"", "a", "\x00\xff\x04", S[4]}
	for _, dn := range capS {
		for _, pw := range capS {
			emitCap(&codec.Req{Op: "bind", Version: 3, DN: dn, Password: pw})
		}
	}
	for _, cl := range ctlLists[:nSingles] {
		emitCap(&codec.Req{Op: "bind", Version: 3, DN: "cn=a", Password: "p", Controls: cl})
		emitCap(&codec.Req{Op: "search", DN: "dc=a", Scope: 1, Deref: 3, Size: 10, Time: 20, Filter: "(cn=*)", Attrs: []string{"cn"}, Controls: cl})
		emitCap(&codec.Req{Op: "delete", DN: "cn=a", Controls: cl})
	}
	for i, l := range lims {
		f := c01filters[i%len(c01filters)]
		emitCap(&codec.Req{Op: "search", DN: capS[i%4], Scope: int64(i % 3), Deref: int64(i % 4), Size: l.s, Time: l.t, TypesOnly: i%2 == 0, Filter: f, Attrs: attrLists[i%len(attrLists)]})
	}
	for i, ch := range changes {
		if ch.Op == 3 && len(ch.Vals) != 1 {
			continue
		}
		if th || i%3 == 0 {
			emitCap(&codec.Req{Op: "modify", DN: "cn=a", Changes: []codec.Change{ch}})
			emitCap(&codec.Req{Op: "modify", DN: "cn=a", Changes: []codec.Change{ch, changes[(i*5+1)%len(changes)]}})
		}
	}
	for i, a := range attrs {
		emitCap(&codec.Req{Op: "add", DN: "cn=a", Attrs2: []codec.Attr{a}})
		emitCap(&codec.Req{Op: "add", DN: "cn=a", Attrs2: []codec.Attr{a, attrs[(i*5+1)%len(attrs)]}})
	}
	for _, dn := range capS {
		emitCap(&codec.Req{Op: "delete", DN: dn})
	}
	emitCap(&codec.Req{Op: "extended", Name: codec.OIDWhoAmI})
	emitCap(&codec.Req{Op: "unbind"})
}
