package main

import (
	"crypto/tls"
	"encoding/json"
	"fmt"
	"net"
	"strings"
	"sync"
	"time"

	"github.com/go-ldap/ldap/v3"
	"github.com/jimlambrt/gldap"
	"verif/codec"
	"verif/ev"
)

// C17 (real-socket part) — Ready is true only while the server is really listening: every address form,
// ports that are already bound, and Ready => connectable on the real stack. The schedules of Run || Ready-poller
// are explored by the SCHED part (run by ./check before this one).

func init() {
	checks["C17"] = &Check{
		Shards: func(tier string) int { return 4 },
		Run:    c17run,
		Finalize: func(m *shardOut, r *ev.Run) {
			r.Cov["states"] = m.Counts["cases"]
			r.Cov["transitions"] = m.Counts["steps"]
			r.Cov["traces_validated_against_impl"] = m.Counts["cases"]
			r.Cov["evaluations"] = m.Counts["cases"]
			r.Cov["distinct_nontrivial"] = len(m.Outc)
			r.Cov["rule"] = "real-socket part: every address form of the alphabet (well-formed IPv4/IPv6/host forms, malformed forms built from pieces, unlistenable ports) is given to a real Server.Run on loopback; a malformed or unlistenable address must make Run return an error with Ready never true (polled concurrently and afterwards); a well-formed one must make Ready true, a TCP connect succeed at once and a bind be served. The interleavings of Run with a Ready poller are decided by the SCHED part (coverage key sched_part)."
			r.Cov["samples"] = m.Samp
			r.Cov["outcomes"] = m.Outc
			r.Cov["exhaustive"] = !m.CapHit
			attachSecondary(r)
			r.Assume = []string{"IPv6 forms are only used when the sandbox can bind [::1]", "the 'Ready => connectable' loop on real sockets is a cross-check; the deciding exploration of schedules is the SCHED part"}
		},
		Replay: func(p json.RawMessage, c *Ctx) {
			var rep struct {
				Addr string `json:"addr"`
				Kind string `json:"kind"`
			}
			json.Unmarshal(p, &rep)
			c17case(c, rep.Addr, rep.Kind)
		},
	}
}

func freePort() int {
	l, err := net.Listen("tcp", "127.0.0.1:0")
	if err != nil {
		panic(err)
	}
	defer l.Close()
	return l.Addr().(*net.TCPAddr).Port
}

func haveIPv6() bool {
	l, err := net.Listen("tcp", "[::1]:0")
	if err != nil {
		return false
	}
	l.Close()
	return true
}

// c17case: kind = "valid" | "malformed" | "unlistenable" | "in-use". addr contains PORT where a free port goes.
func c17case(c *Ctx, addrTmpl, kind string) {
	c.Count("cases", 1)
	// "valid+<others>": other clients are connected to the ready server when the probe connection is made:
	// silent1 / silent2 = connected, nothing sent; partial = connected, the first bytes of a request sent
	others := ""
	if strings.HasPrefix(kind, "valid+") {
		others, kind = kind[6:], "valid"
	}
	port := freePort()
	addr := strings.ReplaceAll(addrTmpl, "PORT", fmt.Sprint(port))
	var holder net.Listener
	heldByGldap := false
	if kind == "in-use-by-gldap" {
		// the port is held by another gldap server of this process (a daemon started twice)
		other, err := gldap.NewServer(gldap.WithLogger(quietLogger))
		if err != nil {
			panic(err)
		}
		om, _ := gldap.NewMux()
		_ = other.Router(om)
		go func() { _ = other.Run(fmt.Sprintf("127.0.0.1:%d", port)) }()
		for i := 0; !other.Ready() && i < 200000; i++ {
			time.Sleep(50 * time.Microsecond)
		}
		if !other.Ready() {
			return
		}
		defer stopBounded(other)
		kind = "in-use"
		heldByGldap = true
	}
	if kind == "in-use" && !heldByGldap {
		var err error
		holder, err = net.Listen("tcp", fmt.Sprintf("127.0.0.1:%d", port))
		if err != nil {
			return
		}
		defer holder.Close()
	}
	rep := map[string]string{"addr": addrTmpl, "kind": kind, "others": others}
	if heldByGldap {
		rep["kind"] = "in-use-by-gldap"
	}
	srv, err := gldap.NewServer(gldap.WithLogger(quietLogger))
	if err != nil {
		panic(err)
	}
	mux, _ := gldap.NewMux()
	served := 0
	var mu sync.Mutex
	_ = mux.Bind(func(w *gldap.ResponseWriter, r *gldap.Request) {
		mu.Lock()
		served++
		mu.Unlock()
		_ = w.Write(r.NewBindResponse(gldap.WithResponseCode(gldap.ResultSuccess)))
	})
	_ = srv.Router(mux)
	runErr := make(chan error, 1)
	stopPoll := make(chan struct{})
	readySeen := false
	var pollWG sync.WaitGroup
	pollWG.Add(1)
	go func() {
		defer pollWG.Done()
		for {
			if srv.Ready() {
				readySeen = true
				return
			}
			select {
			case <-stopPoll:
				return
			default:
				time.Sleep(50 * time.Microsecond)
			}
		}
	}()
	go func() { runErr <- srv.Run(addr) }()
	c.Count("steps", 1)
	switch kind {
	case "malformed", "unlistenable", "in-use":
		var err error
		select {
		case err = <-runErr:
		case <-time.After(20 * time.Second):
			close(stopPoll)
			pollWG.Wait()
			_ = srv.Stop()
			c.Outcome(kind + ": Run still running")
			c.Report("Run does not return an error for an address it cannot listen on ("+kind+")", fmt.Sprintf("addr %q: Run still running after 20 s (Ready seen: %v)", addr, readySeen), rep)
			return
		}
		close(stopPoll)
		pollWG.Wait()
		after := srv.Ready()
		_ = srv.Stop()
		switch {
		case err == nil:
			c.Outcome(kind + ": Run returned nil")
			c.Report("Run returns nil for an address it cannot listen on ("+kind+")", fmt.Sprintf("addr %q", addr), rep)
		case readySeen || after:
			c.Outcome(kind + ": Ready true")
			c.Report("Ready reports true although Run could not listen ("+kind+")", fmt.Sprintf("addr %q: Run error %v; Ready during Run=%v, after=%v", addr, err, readySeen, after), rep)
		default:
			c.Outcome(kind + ": error, never ready")
		}
	case "valid":
		deadline := time.Now().Add(20 * time.Second)
		for !srv.Ready() {
			select {
			case err := <-runErr:
				close(stopPoll)
				pollWG.Wait()
				c.Outcome("valid: Run failed")
				c.Report("Run rejects a well-formed address", fmt.Sprintf("addr %q: %v", addr, err), rep)
				return
			default:
			}
			if time.Now().After(deadline) {
				close(stopPoll)
				pollWG.Wait()
				_ = srv.Stop()
				c.Outcome("valid: never ready")
				c.Report("Ready never becomes true for a well-formed address", fmt.Sprintf("addr %q", addr), rep)
				return
			}
			time.Sleep(20 * time.Microsecond)
		}
		close(stopPoll)
		pollWG.Wait()
		// connect at once, to the address a client would use
		dial := addr
		if strings.HasPrefix(dial, ":") && !strings.HasPrefix(dial, "::") {
			dial = "127.0.0.1" + dial
		}
		if strings.HasPrefix(dial, "0.0.0.0:") {
			dial = "127.0.0.1:" + fmt.Sprint(port)
		}
		if strings.HasPrefix(dial, "[::]:") {
			dial = "[::1]:" + fmt.Sprint(port)
		}
		if strings.HasPrefix(dial, "::1:") {
			dial = "[::1]:" + fmt.Sprint(port)
		}
		switch others {
		case "router-nil":
			// a rejected call must not disturb the running server
			if err := srv.Router(nil); err == nil {
				c.Report("Server.Router(nil) is accepted", addr, rep)
			}
		case "router-again":
			_ = srv.Router(mux)
		}
		var held []net.Conn
		for i := 0; others != "" && i < map[string]int{"silent1": 1, "silent2": 2, "partial": 1}[others]; i++ {
			c.Count("steps", 1)
			oc, err := net.DialTimeout("tcp", dial, 5*time.Second)
			if err != nil {
				break
			}
			if others == "partial" {
				_, _ = oc.Write((&codec.Req{Op: "bind", MsgID: 1, Version: 3, DN: "cn=a", Password: "p"}).Bytes()[:3])
			}
			held = append(held, oc)
		}
		closeHeld := func() {
			for _, oc := range held {
				oc.Close()
			}
		}
		c.Count("steps", 1)
		conn, err := net.DialTimeout("tcp", dial, 5*time.Second)
		if err != nil {
			closeHeld()
			stopBounded(srv)
			c.Outcome("valid: dial fails after Ready")
			c.Report("a connection attempt fails although Ready reported true", fmt.Sprintf("addr %q dial %q: %v", addr, dial, err), rep)
			return
		}
		lc := ldap.NewConn(conn, false)
		lc.Start()
		lc.SetTimeout(10 * time.Second)
		berr := lc.Bind("cn=a", "p")
		lc.Close()
		closeHeld()
		stopBounded(srv)
		select {
		case err := <-runErr:
			if err != nil {
				c.Report("Run returns an error after Stop", fmt.Sprintf("addr %q: %v", addr, err), rep)
			}
		case <-time.After(20 * time.Second):
			c.Report("Run does not return after Stop", addr, rep)
		}
		if berr != nil {
			c.Outcome("valid: not served")
			key := "a connection made after Ready reported true is not served"
			if others != "" {
				key += map[string]string{"silent1": " while another client is connected and silent", "silent2": " while another client is connected and silent", "partial": " while another client is connected and half-way through a request", "router-nil": " after a rejected Router(nil) call", "router-again": " after the router was set again"}[others]
			}
			c.Report(key, fmt.Sprintf("addr %q: %v", addr, berr), rep)
			return
		}
		c.Outcome("valid" + others + ": ready, connected, served")
	}
}

// stopBounded calls Stop but does not wait for it for ever: whether Stop returns is C11's business.
func stopBounded(srv *gldap.Server) {
	done := make(chan struct{})
	go func() { _ = srv.Stop(); close(done) }()
	select {
	case <-done:
	case <-time.After(20 * time.Second):
	}
}

// c17retry: Run fails (port in use / malformed address), Ready stays false; the same server is then run on an
// address it can bind: Ready must become true and a connection must be served until Stop.
func c17retry(c *Ctx, kind string) {
	c.Count("cases", 1)
	port := freePort()
	addr := fmt.Sprintf("127.0.0.1:%d", port)
	rep := map[string]string{"addr": "127.0.0.1:PORT", "kind": kind}
	srv, err := gldap.NewServer(gldap.WithLogger(quietLogger))
	if err != nil {
		panic(err)
	}
	mux, _ := gldap.NewMux()
	_ = mux.Bind(func(w *gldap.ResponseWriter, r *gldap.Request) {
		_ = w.Write(r.NewBindResponse(gldap.WithResponseCode(gldap.ResultSuccess)))
	})
	_ = srv.Router(mux)
	first := addr
	var holder net.Listener
	if kind == "retry-after-in-use" {
		holder, err = net.Listen("tcp", addr)
		if err != nil {
			return
		}
	} else {
		first = "127.0.0.1:notaport"
	}
	c.Count("steps", 1)
	ferr := make(chan error, 1)
	go func() { ferr <- srv.Run(first) }()
	select {
	case e := <-ferr:
		if e == nil || srv.Ready() {
			if holder != nil {
				holder.Close()
			}
			c.Report("Run returns nil or Ready is true for an address it cannot listen on ("+kind+")", fmt.Sprintf("err=%v ready=%v", e, srv.Ready()), rep)
			return
		}
	case <-time.After(20 * time.Second):
		if holder != nil {
			holder.Close()
		}
		stopBounded(srv)
		c.Report("Run does not return an error for an address it cannot listen on ("+kind+")", first, rep)
		return
	}
	if holder != nil {
		holder.Close()
	}
	c.Count("steps", 1)
	runErr := make(chan error, 1)
	go func() { runErr <- srv.Run(addr) }()
	deadline := time.Now().Add(20 * time.Second)
	for !srv.Ready() {
		select {
		case e := <-runErr:
			c.Outcome(kind + ": second Run returned")
			c.Report("after a Run that could not listen, a second Run of the same server on a free address returns without serving", fmt.Sprintf("addr %q: %v", addr, e), rep)
			return
		default:
		}
		if time.Now().After(deadline) {
			stopBounded(srv)
			c.Report("after a Run that could not listen, Ready never becomes true for a second Run on a free address", addr, rep)
			return
		}
		time.Sleep(20 * time.Microsecond)
	}
	var berr error
	for i := 0; i < 3 && berr == nil; i++ {
		c.Count("steps", 1)
		conn, err := net.DialTimeout("tcp", addr, 5*time.Second)
		if err != nil {
			berr = err
			break
		}
		lc := ldap.NewConn(conn, false)
		lc.Start()
		lc.SetTimeout(10 * time.Second)
		berr = lc.Bind("cn=a", "p")
		lc.Close()
	}
	stopBounded(srv)
	if berr != nil {
		c.Outcome(kind + ": ready but not served")
		c.Report("Ready reported true (second Run after a failed one) but a connection is not served", fmt.Sprintf("addr %q: %v", addr, berr), rep)
		return
	}
	c.Outcome(kind + ": failed Run, then ready, connected, served")
}

// c17tlsConfig: Run with a TLS configuration (with / without a certificate source). Whatever Run decides, Ready
// and Run must agree: if Run returns an error Ready is not true afterwards; while Ready is true (Stop not
// called) Run is still running and a TCP connection attempt succeeds.
func c17tlsConfig(c *Ctx, name string, cfg *tls.Config) {
	c.Count("cases", 1)
	rep := map[string]string{"addr": "127.0.0.1:PORT", "kind": "tls-config:" + name}
	srv, err := gldap.NewServer(gldap.WithLogger(quietLogger))
	if err != nil {
		panic(err)
	}
	mux, _ := gldap.NewMux()
	_ = srv.Router(mux)
	addr := fmt.Sprintf("127.0.0.1:%d", freePort())
	runErr := make(chan error, 1)
	go func() { runErr <- srv.Run(addr, gldap.WithTLSConfig(cfg)) }()
	var rerr error
	returned := false
	for i := 0; i < 40000 && !srv.Ready() && !returned; i++ {
		select {
		case rerr = <-runErr:
			returned = true
		default:
			time.Sleep(50 * time.Microsecond)
		}
	}
	if !returned {
		select {
		case rerr = <-runErr:
			returned = true
		case <-time.After(300 * time.Millisecond):
		}
	}
	c.Count("steps", 1)
	switch {
	case returned && srv.Ready():
		c.Outcome("tls-config " + name + ": Run returned, Ready true")
		c.Report("Ready reports true although Run has returned without Stop being called (tls configuration "+name+")", fmt.Sprintf("Run returned %v", rerr), rep)
	case returned:
		c.Outcome("tls-config " + name + ": Run returned an error, Ready false")
	default:
		conn, derr := net.DialTimeout("tcp", addr, 5*time.Second)
		if derr != nil {
			c.Outcome("tls-config " + name + ": ready, connect fails")
			c.Report("Ready reports true but a connection attempt fails (tls configuration "+name+")", derr.Error(), rep)
		} else {
			conn.Close()
			c.Outcome("tls-config " + name + ": ready, listening")
		}
	}
	stopBounded(srv)
}

func c17run(c *Ctx) {
	if c.Mine() {
		c17tlsConfig(c, "without any certificate source", &tls.Config{})
	}
	if c.Mine() {
		c17tlsConfig(c, "only MinVersion set", &tls.Config{MinVersion: tls.VersionTLS12})
	}
	type a struct{ tmpl, kind string }
	var cases []a
	for _, t := range []string{":PORT", "127.0.0.1:PORT", "localhost:PORT", "0.0.0.0:PORT"} {
		cases = append(cases, a{t, "valid"})
	}
	if haveIPv6() {
		for _, t := range []string{"[::1]:PORT", "::1:PORT", "[::]:PORT"} {
			cases = append(cases, a{t, "valid"})
		}
	}
	// malformed: built from pieces
	mal := []string{"", "nocolon", ":", "127.0.0.1", "127.0.0.1:", "[::1]", "[::1]:", "[::1:PORT", "::1]:PORT", "[::1]x:PORT", "[::1]:636:PORT", "[127.0.0.1]junk:PORT",
		"1.2.3:PORT", "256.1.1.1:PORT", "1.2.3.4.5:PORT", "[::g]:PORT", "[]:PORT", "[[::1]]:PORT", "[::1]]:PORT", "host-unknown.invalid:PORT", "a:b:PORT", "1.2.3.4:5:PORT", " 127.0.0.1:PORT", "127.0.0.1 :PORT"}
	for _, t := range mal {
		cases = append(cases, a{t, "malformed"})
	}
	for _, o := range []string{"silent1", "silent2", "partial", "router-nil", "router-again"} {
		cases = append(cases, a{"127.0.0.1:PORT", "valid+" + o}, a{":PORT", "valid+" + o})
	}
	for _, t := range []string{"127.0.0.1:99999", "127.0.0.1:abc", "127.0.0.1:-1", "192.0.2.77:PORT",
		// addresses the validation lets through and the net package cannot resolve: IPv6 literals without
		// brackets, service names that do not exist
		"fd00::2:PORT", "2001:db8:3333:4444:5555:6666:7777:8888:PORT", ":no-such-service", "localhost:ldap/tcp", "127.0.0.1:ldapz"} {
		cases = append(cases, a{t, "unlistenable"})
	}
	for _, t := range []string{"127.0.0.1:PORT", ":PORT", "localhost:PORT"} {
		cases = append(cases, a{t, "in-use"}, a{t, "in-use-by-gldap"})
	}
	// a Run that could not listen, then a Run of the same server on an address it can bind
	cases = append(cases, a{"127.0.0.1:PORT", "retry-after-in-use"}, a{"127.0.0.1:PORT", "retry-after-malformed"})
	reps := 3
	if c.Thorough() {
		reps = 25
	}
	for _, cs := range cases {
		n := 1
		if strings.HasPrefix(cs.kind, "valid") || strings.HasPrefix(cs.kind, "in-use") || strings.HasPrefix(cs.kind, "retry") {
			n = reps // the Ready => connectable cross-check is repeated
		}
		for i := 0; i < n; i++ {
			if c.Mine() {
				if strings.HasPrefix(cs.kind, "retry") {
					c17retry(c, cs.kind)
					continue
				}
				c17case(c, cs.tmpl, cs.kind)
				if len(c.Samp) < 3 {
					c.Sample(map[string]string{"addr": cs.tmpl, "kind": cs.kind})
				}
			}
		}
	}
}
