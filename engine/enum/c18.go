package main

import (
	"crypto/ecdsa"
	"crypto/elliptic"
	"crypto/rand"
	"crypto/tls"
	"crypto/x509"
	"crypto/x509/pkix"
	"encoding/json"
	"fmt"
	"io"
	"math/big"
	"net"
	"sync"
	"time"

	"github.com/go-ldap/ldap/v3"
	"github.com/jimlambrt/gldap"
	"github.com/jimlambrt/gldap/testdirectory"
	"verif/codec"
	"verif/ev"
)

// C18 (real TCP, real crypto/tls) — with TLS configured, only clients that satisfy it reach a handler.

func init() {
	checks["C18"] = &Check{
		Shards: func(tier string) int { return 12 },
		Run:    c18run,
		Finalize: func(m *shardOut, r *ev.Run) {
			r.Cov["states"] = m.Counts["cells"]
			r.Cov["transitions"] = m.Counts["connections"]
			r.Cov["traces_validated_against_impl"] = m.Counts["cells"]
			r.Cov["evaluations"] = m.Counts["cells"]
			r.Cov["distinct_nontrivial"] = len(m.Outc)
			r.Cov["rule"] = "finite matrix on the real stack: TLS configuration shape (certificate via Certificates / GetCertificate / GetConfigForClient; client certificate required and verified; the test directory's own default-TLS and WithMTLS configurations) x client behaviour (plaintext request of each of the 7 operations, 64 arbitrary bytes, connect and close, TLS without certificate, certificate from another CA, certificate from another call of the library's own GetTLSConfig(WithMTLS), certificate of the right CA but another subject, TLS 1.2-only client, right certificate; two configurations carry a VerifyConnection policy: one allowed subject / TLS 1.3 only) x shape of the option lists (nil / other options before and after WithTLSConfig in Run's list; a weaker WithTLSConfig handed to NewServer as well), each next to a conforming bystander that binds before, while and after; the handler log must have no entry for a connection that does not satisfy the configuration. The interleavings of failing handshakes with bystander traffic are explored by the SCHED part (coverage key sched_part)."
			r.Cov["samples"] = m.Samp
			r.Cov["outcomes"] = m.Outc
			r.Cov["exhaustive"] = !m.CapHit
			attachSecondary(r)
			r.Assume = []string{"crypto/tls itself is trusted; what is checked is where and when gldap engages it", "a client that gets no answer within 10 s is recorded as 'no response' (4 orders of magnitude above the normal latency)"}
		},
		Replay: func(p json.RawMessage, c *Ctx) {
			c.NShards, c.Shard = 1, 0
			c18run(c)
		},
	}
}

type rpki struct {
	pool                  *x509.CertPool
	srv, cli, cli2, other tls.Certificate
	clientBase            *tls.Config
	helperOnce            sync.Once
	helperCert            *tls.Certificate
}

func mkRealPKI() *rpki {
	mkCA := func(cn string) (*x509.Certificate, *ecdsa.PrivateKey) {
		k, _ := ecdsa.GenerateKey(elliptic.P256(), rand.Reader)
		t := &x509.Certificate{SerialNumber: big.NewInt(1), Subject: pkix.Name{CommonName: cn}, NotBefore: time.Now().Add(-time.Hour), NotAfter: time.Now().Add(24 * time.Hour), IsCA: true, KeyUsage: x509.KeyUsageCertSign | x509.KeyUsageDigitalSignature, BasicConstraintsValid: true}
		der, err := x509.CreateCertificate(rand.Reader, t, t, &k.PublicKey, k)
		if err != nil {
			panic(err)
		}
		c, _ := x509.ParseCertificate(der)
		return c, k
	}
	leaf := func(ca *x509.Certificate, cak *ecdsa.PrivateKey, cn string, server bool) tls.Certificate {
		k, _ := ecdsa.GenerateKey(elliptic.P256(), rand.Reader)
		t := &x509.Certificate{SerialNumber: big.NewInt(2), Subject: pkix.Name{CommonName: cn}, NotBefore: time.Now().Add(-time.Hour), NotAfter: time.Now().Add(24 * time.Hour), KeyUsage: x509.KeyUsageDigitalSignature}
		if server {
			t.ExtKeyUsage = []x509.ExtKeyUsage{x509.ExtKeyUsageServerAuth}
			t.DNSNames = []string{"localhost"}
			t.IPAddresses = []net.IP{net.IPv4(127, 0, 0, 1)}
		} else {
			t.ExtKeyUsage = []x509.ExtKeyUsage{x509.ExtKeyUsageClientAuth}
		}
		der, err := x509.CreateCertificate(rand.Reader, t, ca, &k.PublicKey, cak)
		if err != nil {
			panic(err)
		}
		return tls.Certificate{Certificate: [][]byte{der}, PrivateKey: k}
	}
	ca, cak := mkCA("verif CA")
	oca, ocak := mkCA("other CA")
	p := &rpki{pool: x509.NewCertPool()}
	p.pool.AddCert(ca)
	p.srv = leaf(ca, cak, "localhost", true)
	p.cli = leaf(ca, cak, "client", false)
	p.cli2 = leaf(ca, cak, "client2", false) // same CA, another subject
	p.other = leaf(oca, ocak, "intruder", false)
	p.clientBase = &tls.Config{RootCAs: p.pool, ServerName: "localhost"}
	return p
}

// helperOther: the client certificate of another testdirectory.GetTLSConfig(WithMTLS) call in this process -
// issued by a CA that the library generated itself, but not the CA of the server under test.
func (p *rpki) helperOther() *tls.Certificate {
	p.helperOnce.Do(func() {
		t := &quietT{}
		_, cc := testdirectory.GetTLSConfig(t, testdirectory.WithMTLS(t))
		if cc != nil && len(cc.Certificates) > 0 {
			p.helperCert = &cc.Certificates[0]
		}
	})
	if p.helperCert == nil {
		panic("harness: testdirectory.GetTLSConfig(WithMTLS) returned no client certificate")
	}
	return p.helperCert
}

// otherMTLS: a second WithMTLS test directory of this process (its own CA), used by the behaviour that brings a
// session ticket from elsewhere
type otherMTLS struct {
	addr  string
	pool  *x509.CertPool
	cert  tls.Certificate
	creds [2]string
}

var otherMTLSOnce sync.Once
var otherMTLSDir *otherMTLS

func otherMTLSDirectory() *otherMTLS {
	otherMTLSOnce.Do(func() {
		t := &quietT{}
		users := testdirectory.NewUsers(t, []string{"alice"})
		d := startDirectory(t, testdirectory.WithDefaults(t, &testdirectory.Defaults{Users: users}), testdirectory.WithLogger(t, quietLogger), testdirectory.WithMTLS(t))
		pool := x509.NewCertPool()
		pool.AppendCertsFromPEM([]byte(d.Cert()))
		cert, err := tls.X509KeyPair([]byte(d.ClientCert()), []byte(d.ClientKey()))
		if err != nil {
			panic(err)
		}
		otherMTLSDir = &otherMTLS{addr: fmt.Sprintf("%s:%d", d.Host(), d.Port()), pool: pool, cert: cert, creds: [2]string{users[0].DN, "password"}}
	})
	return otherMTLSDir
}

type c18srv struct {
	addr   string
	stop   func()
	log    func() []string // bind DNs (or "op:<kind>") seen by handlers
	client func(cert *tls.Certificate) *tls.Config
	creds  [2]string // bind DN / password that succeed
}

// startOwn starts a gldap server of our own with the TLS configuration. shape is the shape of Run's option
// list: "" = just WithTLSConfig, "nil-first" / "nil-last" = a nil Option (documented as ignored) before /
// after it, "other-first" = an unrelated option before it.
func startOwn(cfg *tls.Config, p *rpki, shape string) *c18srv {
	nsopts := []gldap.Option{gldap.WithLogger(quietLogger)}
	if shape == "newserver-weaker" {
		// the constructor is handed a TLS configuration too (it accepts any Option): one without client
		// certificates; the configuration given to Run is the one that counts
		weaker := cfg.Clone()
		weaker.ClientAuth, weaker.ClientCAs, weaker.VerifyConnection = tls.NoClientCert, nil, nil
		nsopts = append(nsopts, gldap.WithTLSConfig(weaker))
	}
	srv, _ := gldap.NewServer(nsopts...)
	mux, _ := gldap.NewMux()
	var mu sync.Mutex
	var seen []string
	rec := func(s string) { mu.Lock(); seen = append(seen, s); mu.Unlock() }
	_ = mux.Bind(func(w *gldap.ResponseWriter, r *gldap.Request) {
		m, _ := r.GetSimpleBindMessage()
		rec("bind:" + m.UserName)
		_ = w.Write(r.NewBindResponse(gldap.WithResponseCode(gldap.ResultSuccess)))
	})
	_ = mux.DefaultRoute(func(w *gldap.ResponseWriter, r *gldap.Request) {
		rec("default")
		_ = w.Write(r.NewResponse(gldap.WithResponseCode(gldap.ResultSuccess)))
	})
	_ = mux.Unbind(func(w *gldap.ResponseWriter, r *gldap.Request) { rec("unbind") })
	_ = srv.Router(mux)
	port := freePort()
	addr := fmt.Sprintf("127.0.0.1:%d", port)
	var nilOpt gldap.Option
	ropts := []gldap.Option{gldap.WithTLSConfig(cfg)}
	switch shape {
	case "nil-first":
		ropts = []gldap.Option{nilOpt, gldap.WithTLSConfig(cfg)}
	case "nil-last":
		ropts = []gldap.Option{gldap.WithTLSConfig(cfg), nilOpt}
	case "other-first":
		ropts = []gldap.Option{gldap.WithLogger(quietLogger), nilOpt, gldap.WithTLSConfig(cfg), gldap.WithLogger(quietLogger)}
	}
	go func() { _ = srv.Run(addr, ropts...) }()
	for i := 0; !srv.Ready() && i < 200000; i++ {
		time.Sleep(50 * time.Microsecond)
	}
	return &c18srv{addr: addr, stop: func() { _ = srv.Stop() }, log: func() []string {
		mu.Lock()
		defer mu.Unlock()
		return append([]string(nil), seen...)
	}, client: func(cert *tls.Certificate) *tls.Config {
		c := p.clientBase.Clone()
		if cert != nil {
			c.Certificates = []tls.Certificate{*cert}
		}
		return c
	}, creds: [2]string{"cn=anyone", "pw"}}
}

type quietT struct{ failed []string }

func (t *quietT) Errorf(format string, args ...interface{}) {
	t.failed = append(t.failed, fmt.Sprintf(format, args...))
}
func (t *quietT) FailNow()             { panic("testdirectory: FailNow: " + fmt.Sprint(t.failed)) }
func (t *quietT) Log(a ...interface{}) {}

// c18cell runs one cell of the matrix. satisfies = the behaviour satisfies the configuration.
func c18cell(c *Ctx, cfgName string, s *c18srv, p *rpki, right *tls.Certificate, beh string, satisfies bool, directory bool) {
	c.Count("cells", 1)
	cell := cfgName + " / " + beh
	fail := func(key, detail string) {
		c.Outcome(cell + " FAIL")
		c.Report(key+" ["+cfgName+"; "+beh+"]", detail, map[string]string{"config": cfgName, "behaviour": beh})
	}
	bystander := func(tag string) bool {
		c.Count("connections", 1)
		conn, err := tls.DialWithDialer(&net.Dialer{Timeout: 10 * time.Second}, "tcp", s.addr, s.client(right))
		if err != nil {
			fail("a conforming TLS client cannot connect while another connection fails the TLS requirements", fmt.Sprintf("bystander %s: %v", tag, err))
			return false
		}
		lc := ldap.NewConn(conn, true)
		lc.Start()
		lc.SetTimeout(10 * time.Second)
		defer lc.Close()
		dn := s.creds[0]
		if !directory {
			dn = "cn=bystander-" + tag
		}
		if err := lc.Bind(dn, s.creds[1]); err != nil {
			fail("a conforming TLS client is not served while another connection fails the TLS requirements", fmt.Sprintf("bystander %s: %v", tag, err))
			return false
		}
		return true
	}
	if !bystander("before") {
		return
	}
	before := len(s.log())
	// the offender
	c.Count("connections", 1)
	marker := "cn=offender"
	gotLDAP := false
	handshakeOK := false
	var during sync.WaitGroup
	runBystanderDuring := func() {
		during.Add(1)
		go func() { defer during.Done(); bystander("during") }()
	}
	switch {
	case len(beh) > 10 && beh[:10] == "plaintext-":
		conn, err := net.DialTimeout("tcp", s.addr, 10*time.Second)
		if err == nil {
			op := beh[10:]
			var b []byte
			if op == "bytes" {
				b = make([]byte, 64)
				for i := range b {
					b[i] = byte(i*37 + 11)
				}
			} else {
				rq := canonReq(op)
				rq.DN = marker
				if op == "bind" && directory {
					rq.DN, rq.Password = s.creds[0], s.creds[1]
				}
				b = rq.Bytes()
			}
			_, _ = conn.Write(b)
			runBystanderDuring()
			_ = conn.SetReadDeadline(time.Now().Add(10 * time.Second))
			data, _ := io.ReadAll(conn)
			if fr, _, _ := codec.Frames(data); len(fr) > 0 {
				if _, err := codec.ParseResponse(fr[0]); err == nil {
					gotLDAP = true
				}
			}
			conn.Close()
		}
	case beh == "connect-close":
		conn, err := net.DialTimeout("tcp", s.addr, 10*time.Second)
		if err == nil {
			runBystanderDuring()
			during.Wait()
			conn.Close()
		}
	default: // tls-no-cert, tls-other-ca, tls-right-cert
		var cert *tls.Certificate
		switch beh {
		case "tls-other-ca":
			cert = &p.other
		case "tls-other-helper-ca":
			cert = p.helperOther()
		case "tls-right-ca-other-subject":
			cert = &p.cli2
		case "tls-right-cert", "tls12-only-right-cert":
			cert = right
		}
		ccfg := s.client(cert)
		if beh == "tls12-only-right-cert" {
			ccfg.MaxVersion = tls.VersionTLS12
		}
		if beh == "tls-other-ca" || beh == "tls-other-helper-ca" {
			// present the foreign certificate even though the server's acceptable-CA list does not name its issuer
			forced := *cert
			ccfg.Certificates = nil
			ccfg.GetClientCertificate = func(*tls.CertificateRequestInfo) (*tls.Certificate, error) { return &forced, nil }
		}
		if beh == "tls-ticket-from-another-mtls-directory" {
			// a complete session with another mTLS directory of this process (other CA, the client holds a
			// certificate of that CA only), then the same session cache is offered here: no certificate of
			// this server's CA is ever presented
			od := otherMTLSDirectory()
			cache := tls.NewLRUClientSessionCache(4)
			if oc, err := tls.DialWithDialer(&net.Dialer{Timeout: 10 * time.Second}, "tcp", od.addr, &tls.Config{RootCAs: od.pool, ServerName: "localhost", Certificates: []tls.Certificate{od.cert}, ClientSessionCache: cache}); err == nil {
				c.Count("connections", 1)
				lc := ldap.NewConn(oc, true)
				lc.Start()
				lc.SetTimeout(10 * time.Second)
				_ = lc.Bind(od.creds[0], od.creds[1])
				lc.Close()
			}
			ccfg.ServerName = "localhost"
			ccfg.ClientSessionCache = cache
		}
		conn, err := tls.DialWithDialer(&net.Dialer{Timeout: 10 * time.Second}, "tcp", s.addr, ccfg)
		if err == nil {
			handshakeOK = true
			runBystanderDuring()
			lc := ldap.NewConn(conn, true)
			lc.Start()
			lc.SetTimeout(10 * time.Second)
			dn, pw := marker, "pw"
			if directory {
				dn, pw = s.creds[0], s.creds[1]
			}
			err := lc.Bind(dn, pw)
			if err == nil {
				gotLDAP = true
			} else if le, ok := err.(*ldap.Error); ok && le.ResultCode < 200 {
				gotLDAP = true
			}
			lc.Close()
		}
	}
	during.Wait()
	if !bystander("after") {
		return
	}
	// handler log for the offender
	ran := false
	if !directory {
		for _, e := range s.log()[before:] {
			if e == "bind:"+marker || e == "default" || e == "unbind" {
				ran = true
			}
		}
	} else {
		ran = gotLDAP // the directory's own handlers: an LDAP answer means a handler ran
	}
	switch {
	case !satisfies && ran:
		fail("a handler runs for a connection that does not satisfy the TLS configuration", fmt.Sprintf("handshake completed on the client side: %v; LDAP response received: %v; handler log: %v", handshakeOK, gotLDAP, s.log()[before:]))
	case !satisfies && gotLDAP:
		fail("a client that does not satisfy the TLS configuration receives an LDAP response", fmt.Sprintf("handler log: %v", s.log()[before:]))
	case satisfies && !gotLDAP:
		fail("a client that satisfies the TLS configuration is not served", fmt.Sprintf("handshakeOK=%v", handshakeOK))
	default:
		c.Outcome(fmt.Sprintf("%s ok (satisfies=%v)", cell, satisfies))
	}
	if len(c.Samp) < 3 {
		c.Sample(map[string]interface{}{"config": cfgName, "behaviour": beh, "satisfies": satisfies})
	}
}

func c18run(c *Ctx) {
	p := mkRealPKI()
	behaviours := []string{"plaintext-bind", "plaintext-search", "plaintext-modify", "plaintext-add", "plaintext-delete", "plaintext-extended", "plaintext-unbind", "plaintext-bytes", "connect-close", "tls-no-cert", "tls-other-ca", "tls-other-helper-ca", "tls-ticket-from-another-mtls-directory", "tls-right-ca-other-subject", "tls12-only-right-cert", "tls-right-cert"}
	base := func() *tls.Config { return &tls.Config{MinVersion: tls.VersionTLS12} }
	type cfgT struct {
		name  string
		mk    func() *tls.Config
		mtls  bool
		shape string
		// policy: what the configuration's own VerifyConnection callback demands on top ("" = nothing,
		// "cn=client" = the peer certificate's subject, "tls13" = the protocol version)
		policy string
	}
	srvCert := p.srv
	cfgs := []cfgT{
		{"server-auth, Certificates", func() *tls.Config { c := base(); c.Certificates = []tls.Certificate{srvCert}; return c }, false, "", ""},
		{"server-auth, Certificates, Run(nil option, WithTLSConfig)", func() *tls.Config { c := base(); c.Certificates = []tls.Certificate{srvCert}; return c }, false, "nil-first", ""},
		{"server-auth, Certificates, Run(WithTLSConfig, nil option)", func() *tls.Config { c := base(); c.Certificates = []tls.Certificate{srvCert}; return c }, false, "nil-last", ""},
		{"client certificate required, Certificates, Run(other options around WithTLSConfig)", func() *tls.Config {
			c := base()
			c.Certificates = []tls.Certificate{srvCert}
			c.ClientAuth = tls.RequireAndVerifyClientCert
			c.ClientCAs = p.pool
			return c
		}, true, "other-first", ""},
		{"client certificate required, Certificates, NewServer given a server-auth-only WithTLSConfig as well", func() *tls.Config {
			c := base()
			c.Certificates = []tls.Certificate{srvCert}
			c.ClientAuth = tls.RequireAndVerifyClientCert
			c.ClientCAs = p.pool
			return c
		}, true, "newserver-weaker", ""},
		{"server-auth, GetCertificate", func() *tls.Config {
			c := base()
			c.GetCertificate = func(*tls.ClientHelloInfo) (*tls.Certificate, error) { return &srvCert, nil }
			return c
		}, false, "", ""},
		{"server-auth, GetConfigForClient", func() *tls.Config {
			c := base()
			inner := base()
			inner.Certificates = []tls.Certificate{srvCert}
			c.GetConfigForClient = func(*tls.ClientHelloInfo) (*tls.Config, error) { return inner, nil }
			return c
		}, false, "", ""},
		{"client certificate required, Certificates", func() *tls.Config {
			c := base()
			c.Certificates = []tls.Certificate{srvCert}
			c.ClientAuth = tls.RequireAndVerifyClientCert
			c.ClientCAs = p.pool
			return c
		}, true, "", ""},
		{"client certificate required, GetCertificate", func() *tls.Config {
			c := base()
			c.GetCertificate = func(*tls.ClientHelloInfo) (*tls.Certificate, error) { return &srvCert, nil }
			c.ClientAuth = tls.RequireAndVerifyClientCert
			c.ClientCAs = p.pool
			return c
		}, true, "", ""},
	}
	cfgs = append(cfgs,
		cfgT{"client certificate required, VerifyConnection allows one subject", func() *tls.Config {
			c := base()
			c.Certificates = []tls.Certificate{srvCert}
			c.ClientAuth = tls.RequireAndVerifyClientCert
			c.ClientCAs = p.pool
			c.VerifyConnection = func(cs tls.ConnectionState) error {
				if len(cs.PeerCertificates) == 0 || cs.PeerCertificates[0].Subject.CommonName != "client" {
					return fmt.Errorf("subject not allowed")
				}
				return nil
			}
			return c
		}, true, "", "cn=client"},
		cfgT{"server-auth, VerifyConnection demands TLS 1.3", func() *tls.Config {
			c := base()
			c.Certificates = []tls.Certificate{srvCert}
			c.VerifyConnection = func(cs tls.ConnectionState) error {
				if cs.Version < tls.VersionTLS13 {
					return fmt.Errorf("TLS 1.3 required")
				}
				return nil
			}
			return c
		}, false, "", "tls13"})
	// satisfies: does a client behaviour satisfy a configuration?
	satisfies := func(mtls bool, policy, b string) bool {
		switch b {
		case "tls-right-cert":
			return true
		case "tls12-only-right-cert":
			return policy != "tls13"
		case "tls-right-ca-other-subject":
			return policy != "cn=client"
		case "tls-no-cert", "tls-other-ca", "tls-other-helper-ca", "tls-ticket-from-another-mtls-directory":
			return !mtls
		}
		return false
	}
	for _, cf := range cfgs {
		if !c.Mine() {
			continue
		}
		s := startOwn(cf.mk(), p, cf.shape)
		for _, b := range behaviours {
			c18cell(c, cf.name, s, p, &p.cli, b, satisfies(cf.mtls, cf.policy, b), false)
		}
		s.stop()
	}
	// the test directory's own configurations
	for _, dv := range []struct{ mtls, used bool }{{false, false}, {true, false}, {false, true}, {true, true}} {
		if !c.Mine() {
			continue
		}
		dirMTLS := dv.mtls
		t := &quietT{}
		users := testdirectory.NewUsers(t, []string{"alice"})
		opts := []testdirectory.Option{testdirectory.WithDefaults(t, &testdirectory.Defaults{Users: users}), testdirectory.WithLogger(t, quietLogger)}
		name := "testdirectory default TLS"
		if dirMTLS {
			opts = append(opts, testdirectory.WithMTLS(t))
			name = "testdirectory WithMTLS"
		}
		d := startDirectory(t, opts...)
		pool := x509.NewCertPool()
		pool.AppendCertsFromPEM([]byte(d.Cert()))
		var right *tls.Certificate
		if dirMTLS {
			cert, err := tls.X509KeyPair([]byte(d.ClientCert()), []byte(d.ClientKey()))
			if err != nil {
				panic(err)
			}
			right = &cert
		}
		s := &c18srv{addr: fmt.Sprintf("%s:%d", d.Host(), d.Port()), stop: d.Stop, log: func() []string { return nil },
			client: func(cert *tls.Certificate) *tls.Config {
				cc := &tls.Config{RootCAs: pool, ServerName: "localhost"}
				if cert != nil {
					cc.Certificates = []tls.Certificate{*cert}
				}
				return cc
			}, creds: [2]string{users[0].DN, "password"}}
		if dv.used {
			// not the initial state: a conforming client has been there before and has used what the
			// directory offers, a StartTLS request inside its TLS session included
			name += ", after a conforming session (bind, search, StartTLS request)"
			if conn, err := tls.DialWithDialer(&net.Dialer{Timeout: 10 * time.Second}, "tcp", s.addr, s.client(right)); err == nil {
				c.Count("connections", 1)
				for i, r := range []*codec.Req{
					{Op: "bind", MsgID: 1, Version: 3, DN: s.creds[0], Password: s.creds[1]},
					{Op: "search", MsgID: 2, DN: s.creds[0], Scope: 0, Filter: "(objectClass=*)"},
					{Op: "extended", MsgID: 3, Name: codec.OIDStartTLS},
				} {
					prepFilter(r)
					_ = conn.SetDeadline(time.Now().Add(3 * time.Second))
					if _, err := conn.Write(r.Bytes()); err != nil {
						break
					}
					buf := make([]byte, 4096)
					if i == 1 {
						_, _ = conn.Read(buf) // entry
					}
					_, _ = conn.Read(buf)
				}
				conn.Close()
			}
		}
		for _, b := range behaviours {
			if (b == "tls-right-cert" || b == "tls12-only-right-cert") && !dirMTLS {
				continue
			}
			if b == "tls-right-ca-other-subject" {
				continue // the directory's CA issues one client certificate only
			}
			c18cell(c, name, s, p, right, b, satisfies(dirMTLS, "", b), true)
		}
		d.Stop()
	}
}
