package main

import (
	"fmt"
	"net"
	"os"
	"time"

	"github.com/jimlambrt/gldap/testdirectory"
)

// exitRetryShard: a shard process could not set up its environment (no verdict); the parent runs the shard again.
const exitRetryShard = 75

var portSeq int

// harnessPort picks a port below the ephemeral range (so that no outgoing connection of this machine can be
// given it as its source port between the probe and the directory's own listen), spread by process id.
func harnessPort() int {
	for i := 0; i < 2000; i++ {
		portSeq++
		p := 10000 + (os.Getpid()*7919+portSeq*131)%20000
		l, err := net.Listen("tcp", fmt.Sprintf("localhost:%d", p))
		if err != nil {
			continue
		}
		l.Close()
		return p
	}
	fmt.Fprintln(os.Stderr, "harness: no free port for a test directory (no verdict)")
	os.Exit(exitRetryShard)
	return 0
}

// startDirectory is testdirectory.Start on a port chosen by the harness. Start waits for Ready in a loop that
// never ends when the directory's Run could not listen (the port was taken in between): that is a failure of the
// environment, not an observation about a property, so the shard gives up and is run again.
func startDirectory(t testdirectory.TestingT, opts ...testdirectory.Option) *testdirectory.Directory {
	ch := make(chan *testdirectory.Directory, 1)
	port := harnessPort()
	go func() { ch <- testdirectory.Start(t, append(opts, testdirectory.WithPort(t, port))...) }()
	select {
	case d := <-ch:
		return d
	case <-time.After(60 * time.Second):
		fmt.Fprintf(os.Stderr, "harness: testdirectory.Start on port %d does not return (its Run could not listen?); shard gives up without a verdict\n", port)
		os.Exit(exitRetryShard)
	}
	return nil
}
