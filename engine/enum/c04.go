package main

import (
	"encoding/hex"
	"encoding/json"
	"fmt"
	"net"
	"sort"
	"strings"
	"time"

	ber "github.com/go-asn1-ber/asn1-ber"
	"github.com/go-ldap/ldap/v3"
	"github.com/jimlambrt/gldap"
	"verif/codec"
	"verif/ev"
)

// C04 — responses reach the client with the request's message ID and the values set.

func init() {
	checks["C04"] = &Check{
		Shards: func(tier string) int { return 32 },
		Run:    c04run,
		Finalize: func(m *shardOut, r *ev.Run) {
			r.Cov["states"] = m.Counts["responses"]
			r.Cov["transitions"] = m.Counts["steps"]
			r.Cov["traces_validated_against_impl"] = m.Counts["responses"]
			r.Cov["evaluations"] = m.Counts["responses"]
			r.Cov["distinct_nontrivial"] = len(m.Outc)
			r.Cov["rule"] = "a case = request (operation, message ID) x constructor x ordered option subset x setter sequence (<=2) over the value alphabets, plus responses that are written, changed through their setters and written again; executed on a real Request decoded by readRequest and written by the real ResponseWriter.Write; the single frame on the wire is parsed by the strict parser (and by go-ldap) and compared with the reference record of what was set. distinct_nontrivial = distinct (constructor, options, setters) shapes"
			r.Cov["samples"] = m.Samp
			r.Cov["per_family"] = m.Counts
			r.Cov["exhaustive"] = !m.CapHit
			attachSecondary(r)
			r.Assume = []string{
				"fields the handler did not set are not constrained (unset matchedDN/diagnosticMessage/resultCode defaults are not part of the property)",
				"attributes given through the WithAttributes map are compared as a set (Go map order is unspecified); attributes added with AddAttribute in call order",
				"the request's message ID always differs from the connection's request counter except where stated",
			}
		},
		Replay: func(p json.RawMessage, c *Ctx) {
			var cs c04case
			json.Unmarshal(p, &cs)
			c04exec(c, &cs)
		},
	}
}

type c04step struct {
	Kind  string              `json:"kind"` // opt:code opt:app opt:diag opt:matched opt:attrs | set:code set:diag set:matched set:controls set:attr
	Int   int                 `json:"int,omitempty"`
	Str   string              `json:"str,omitempty"`
	Strs  []string            `json:"strs,omitempty"`
	Ctl   []codec.Control     `json:"ctl,omitempty"`
	Attrs map[string][]string `json:"attrs,omitempty"`
}

type c04case struct {
	ReqOp   string    `json:"req_op"`
	MsgID   int64     `json:"msg_id"`
	ReqNum  int       `json:"request_number"`
	Ctor    string    `json:"ctor"`
	EntryDN string    `json:"entry_dn,omitempty"`
	Opts    []c04step `json:"opts"`
	Sets    []c04step `json:"sets"`
}

func (cs *c04case) shape() string {
	s := cs.Ctor + "("
	for _, o := range cs.Opts {
		s += o.Kind + ","
	}
	s += ")"
	for _, o := range cs.Sets {
		s += "." + o.Kind
	}
	return s
}

type c04ref struct {
	tag           int
	code          *int
	matched, diag *string
	entryDN       string
	ordered       []codec.Attr
	unordered     map[string][]string
	controls      []codec.Control
}

var ctorTag = map[string]int{"NewResponse": codec.AppExtendedResp, "NewBindResponse": codec.AppBindResponse, "NewSearchDoneResponse": codec.AppSearchDone, "NewSearchResponseEntry": codec.AppSearchEntry, "NewExtendedResponse": codec.AppExtendedResp, "NewModifyResponse": codec.AppModifyResponse}

func c04exec(c *Ctx, cs *c04case) {
	c.Count("responses", 1)
	c.Count("steps", int64(1+len(cs.Opts)+len(cs.Sets)))
	c.Count("ctor."+cs.Ctor, 1)
	r := canonReq(cs.ReqOp)
	r.MsgID = cs.MsgID
	ref := &c04ref{tag: ctorTag[cs.Ctor], entryDN: cs.EntryDN}
	var opts []gldap.Option
	for _, o := range cs.Opts {
		o := o
		switch o.Kind {
		case "opt:code":
			opts = append(opts, gldap.WithResponseCode(o.Int))
			v := o.Int
			ref.code = &v
		case "opt:app":
			opts = append(opts, gldap.WithApplicationCode(o.Int))
			ref.tag = o.Int
		case "opt:diag":
			opts = append(opts, gldap.WithDiagnosticMessage(o.Str))
			ref.diag = &o.Str
		case "opt:matched":
			opts = append(opts, gldap.WithMatchedDN(o.Str))
			ref.matched = &o.Str
		case "opt:attrs":
			opts = append(opts, gldap.WithAttributes(o.Attrs))
			ref.unordered = o.Attrs
		}
	}
	nWrites := 1
	out, pk, err := writeResponseEx(r.Bytes(), cs.ReqNum, func(req *gldap.Request, w *gldap.ResponseWriter) gldap.Response {
		var resp gldap.Response
		type setter interface {
			SetResultCode(int)
			SetDiagnosticMessage(string)
			SetMatchedDN(string)
		}
		switch cs.Ctor {
		case "NewResponse":
			resp = req.NewResponse(opts...)
		case "NewBindResponse":
			resp = req.NewBindResponse(opts...)
		case "NewSearchDoneResponse":
			resp = req.NewSearchDoneResponse(opts...)
		case "NewSearchResponseEntry":
			resp = req.NewSearchResponseEntry(cs.EntryDN, opts...)
		case "NewExtendedResponse":
			resp = req.NewExtendedResponse(opts...)
		case "NewModifyResponse":
			resp = req.NewModifyResponse(opts...)
		}
		for _, s := range cs.Sets {
			s := s
			switch s.Kind {
			case "write":
				// the response is written here and again at the end, whatever setters follow
				if e := w.Write(resp); e != nil {
					panic("harness: intermediate write failed: " + e.Error())
				}
				nWrites++
			case "set:code":
				resp.(setter).SetResultCode(s.Int)
				v := s.Int
				ref.code = &v
			case "set:diag":
				resp.(setter).SetDiagnosticMessage(s.Str)
				ref.diag = &s.Str
			case "set:matched":
				resp.(setter).SetMatchedDN(s.Str)
				ref.matched = &s.Str
			case "set:controls":
				var gcs []gldap.Control
				for _, ct := range s.Ctl {
					g, err := toGldap(ct)
					if err != nil {
						panic("harness: " + err.Error())
					}
					gcs = append(gcs, g)
				}
				switch v := resp.(type) {
				case *gldap.BindResponse:
					v.SetControls(gcs...)
				case *gldap.SearchResponseDone:
					v.SetControls(gcs...)
				}
				ref.controls = s.Ctl
			case "set:attr":
				resp.(*gldap.SearchResponseEntry).AddAttribute(s.Str, s.Strs)
				ref.ordered = append(ref.ordered, codec.Attr{Type: s.Str, Vals: s.Strs})
			}
		}
		return resp
	})
	shape := cs.shape()
	fail := func(key, detail string) {
		c.Outcome(shape + " FAIL")
		c.Report(key, fmt.Sprintf("%s (request %s msgID %d, request number %d): %s; wire %x", shape, cs.ReqOp, cs.MsgID, cs.ReqNum, detail, trunc2(out)), cs)
	}
	if pk != "" {
		fail("building or writing a response panics: "+pk, "")
		return
	}
	if err != nil {
		fail("ResponseWriter.Write fails for "+cs.Ctor, err.Error())
		return
	}
	frames, left, ferr := codec.Frames(out)
	if ferr != nil || len(left) != 0 || len(frames) != nWrites {
		fail(cs.Ctor+": client does not receive exactly one well-formed LDAPMessage", fmt.Sprintf("%d frames for %d writes, %d leftover bytes, err %v", len(frames), nWrites, len(left), ferr))
		return
	}
	// a response that was written, changed through its setters and written again: the last frame is the one
	// that has to carry everything that was set
	frames = frames[len(frames)-1:]
	resp, err := codec.ParseResponse(frames[0])
	if err != nil {
		fail(cs.Ctor+": response is not a well-formed LDAPMessage", err.Error())
		return
	}
	if resp.MsgID != cs.MsgID {
		fail(cs.Ctor+": message ID differs from the request's", fmt.Sprintf("got %d want %d", resp.MsgID, cs.MsgID))
		return
	}
	if resp.Tag != ref.tag {
		fail(cs.Ctor+": protocolOp tag is not the constructor's / the application code given", fmt.Sprintf("got %d want %d", resp.Tag, ref.tag))
		return
	}
	if ref.tag == codec.AppSearchEntry {
		if resp.EntryDN != cs.EntryDN {
			fail("entry DN differs", fmt.Sprintf("got %q want %q", trunc(resp.EntryDN), trunc(cs.EntryDN)))
			return
		}
		nU := len(ref.unordered)
		if len(resp.Attrs) != nU+len(ref.ordered) {
			fail("entry: number of attributes differs", fmt.Sprintf("got %d want %d", len(resp.Attrs), nU+len(ref.ordered)))
			return
		}
		gotU := map[string][]string{}
		for _, a := range resp.Attrs[:nU] {
			gotU[a.Type] = a.Vals
		}
		for k, v := range ref.unordered {
			g, ok := gotU[k]
			if !ok || !sliceEq(g, v) {
				fail("entry: WithAttributes attribute differs", fmt.Sprintf("attr %q got %q want %q", k, g, v))
				return
			}
		}
		for i, a := range ref.ordered {
			g := resp.Attrs[nU+i]
			if g.Type != a.Type || !sliceEq(g.Vals, a.Vals) {
				fail("entry: AddAttribute attributes differ or are out of order", fmt.Sprintf("position %d got %v want %v", i, g, a))
				return
			}
		}
	} else if resp.IsEntry {
		fail("unexpected entry", "")
		return
	} else {
		if ref.code != nil && resp.Code != int64(int16(*ref.code)) {
			fail(cs.Ctor+": result code differs from the one set", fmt.Sprintf("got %d want %d", resp.Code, *ref.code))
			return
		}
		if ref.matched != nil && resp.Matched != *ref.matched {
			fail(cs.Ctor+": matched DN differs from the one set", fmt.Sprintf("got %q want %q", trunc(resp.Matched), trunc(*ref.matched)))
			return
		}
		if ref.diag != nil && resp.Diag != *ref.diag {
			fail(cs.Ctor+": diagnostic message differs from the one set", fmt.Sprintf("got %q want %q", trunc(resp.Diag), trunc(*ref.diag)))
			return
		}
		if len(resp.Controls) != len(ref.controls) {
			fail(cs.Ctor+": controls differ from those set", fmt.Sprintf("got %d want %d", len(resp.Controls), len(ref.controls)))
			return
		}
		for i, w := range ref.controls {
			got, err := codec.ParseControl(resp.Controls[i])
			if err != nil || got.Kind != w.Kind || got.Size != w.Size || string(got.Cookie) != string(w.Cookie) || got.Expire != w.Expire || got.Grace != w.Grace || got.Err != w.Err || got.Value != w.Value {
				fail(cs.Ctor+": controls differ from those set", fmt.Sprintf("control %d got %v want %v", i, got, w))
				return
			}
		}
		// go-ldap's view of the LDAPResult
		if ref.tag != codec.AppSearchEntry {
			pkt := ber.DecodePacket(frames[0])
			lerr := ldap.GetLDAPError(pkt)
			var code int64
			var diag, matched string
			if lerr != nil {
				if le, ok := lerr.(*ldap.Error); ok {
					code = int64(le.ResultCode)
					matched = le.MatchedDN
					if le.Err != nil {
						diag = le.Err.Error()
					}
				}
			}
			if resp.Code != 0 && (code != resp.Code && code != int64(uint16(resp.Code))) {
				fail("go-ldap reads another result code than the strict parser", fmt.Sprintf("go-ldap %d strict %d", code, resp.Code))
				return
			}
			if resp.Code != 0 && lerr != nil && code < 200 && (matched != resp.Matched || diag != resp.Diag) && resp.Diag != "" {
				fail("go-ldap reads other matchedDN/diagnosticMessage than the strict parser", fmt.Sprintf("go-ldap %q/%q strict %q/%q", trunc(matched), trunc(diag), trunc(resp.Matched), trunc(resp.Diag)))
				return
			}
		}
	}
	c.Outcome(shape)
}

// goLdapSearch feeds frames to a real go-ldap client Search over net.Pipe and returns what it understood.
func goLdapSearch(frames [][]byte) (*ldap.SearchResult, error) {
	c1, c2 := net.Pipe()
	defer c1.Close()
	defer c2.Close()
	lc := ldap.NewConn(c1, false)
	lc.SetTimeout(20 * time.Second)
	lc.Start()
	defer lc.Close()
	go func() {
		var buf []byte
		tmp := make([]byte, 65536)
		sent := false
		for {
			n, err := c2.Read(tmp)
			buf = append(buf, tmp[:n]...)
			if fr, _, _ := codec.Frames(buf); len(fr) > 0 && !sent {
				sent = true
				for _, f := range frames {
					c2.Write(f)
				}
			}
			if err != nil {
				return
			}
		}
	}()
	// a response that is not well-formed can make the client panic (go-ldap v3.4.6 indexes the children of a
	// PartialAttribute without a length check): that is an answer about the response, not a failure of the checker
	var res *ldap.SearchResult
	var err error
	func() {
		defer func() {
			if r := recover(); r != nil {
				res, err = nil, fmt.Errorf("the go-ldap client panics while unpacking the response: %v", r)
			}
		}()
		res, err = lc.Search(ldap.NewSearchRequest("dc=a", 2, 0, 0, 0, false, "(cn=x)", nil, nil))
	}()
	return res, err
}

func c04run(c *Ctx) {
	th := c.Thorough()
	S := strAlpha(th)
	if !th {
		S = append(S, strings.Repeat("H", 70000))
	}
	codes := []int{0, 1, 32, 49, 53, 80, 127, 128, 255, 256, 32767}
	ids := intAlpha
	emit := func(cs *c04case) {
		if !c.Mine() {
			return
		}
		if cs.ReqNum == 0 {
			cs.ReqNum = 1
			if cs.MsgID == 1 {
				cs.ReqNum = 3
			}
		}
		c04exec(c, cs)
		if c.n%10007 == 9 || len(c.Samp) < 2 {
			c.Sample(cs)
		}
	}
	// 0. written, changed, written again
	wr := c04step{Kind: "write"}
	for _, a := range [][]string{{"cn", "x"}, {"member", "alice", "bob"}} {
		for _, b := range [][]string{{"mail", "m"}, {"member", "eve"}, {"cn", "x"}} {
			emit(&c04case{ReqOp: "search", MsgID: 5, Ctor: "NewSearchResponseEntry", EntryDN: "cn=e", Sets: []c04step{{Kind: "set:attr", Str: a[0], Strs: a[1:]}, wr, {Kind: "set:attr", Str: b[0], Strs: b[1:]}}})
			emit(&c04case{ReqOp: "search", MsgID: 5, Ctor: "NewSearchResponseEntry", EntryDN: "cn=e", Sets: []c04step{wr, {Kind: "set:attr", Str: a[0], Strs: a[1:]}, wr, {Kind: "set:attr", Str: b[0], Strs: b[1:]}}})
		}
	}
	for _, ctorOp := range [][2]string{{"NewBindResponse", "bind"}, {"NewSearchDoneResponse", "search"}, {"NewResponse", "delete"}, {"NewModifyResponse", "modify"}, {"NewExtendedResponse", "extended"}} {
		base := []c04step{{Kind: "opt:code", Int: 0}}
		for _, second := range []c04step{{Kind: "set:code", Int: 49}, {Kind: "set:diag", Str: "later"}, {Kind: "set:matched", Str: "cn=later"}} {
			emit(&c04case{ReqOp: ctorOp[1], MsgID: 6, Ctor: ctorOp[0], Opts: base, Sets: []c04step{{Kind: "set:diag", Str: "first"}, wr, second}})
			emit(&c04case{ReqOp: ctorOp[1], MsgID: 6, Ctor: ctorOp[0], Opts: base, Sets: []c04step{wr, second, wr, {Kind: "set:code", Int: 1}}})
		}
		if ctorOp[0] == "NewBindResponse" || ctorOp[0] == "NewSearchDoneResponse" {
			mkc := func(v string) []codec.Control {
				return []codec.Control{{Kind: "string", OID: "1.2.3.9", Value: v, Expire: -1, Grace: -1, Err: -1}}
			}
			emit(&c04case{ReqOp: ctorOp[1], MsgID: 6, Ctor: ctorOp[0], Opts: base, Sets: []c04step{{Kind: "set:controls", Ctl: mkc("one")}, wr, {Kind: "set:controls", Ctl: mkc("two")}}})
			emit(&c04case{ReqOp: ctorOp[1], MsgID: 6, Ctor: ctorOp[0], Opts: base, Sets: []c04step{wr, {Kind: "set:controls", Ctl: mkc("one")}}})
			emit(&c04case{ReqOp: ctorOp[1], MsgID: 6, Ctor: ctorOp[0], Opts: base, Sets: []c04step{{Kind: "set:controls", Ctl: mkc("one")}, wr, {Kind: "set:controls"}}})
		}
	}
	reqOpFor := map[string][]string{
		"NewResponse": allOps[:6], "NewBindResponse": {"bind"}, "NewSearchDoneResponse": {"search"}, "NewSearchResponseEntry": {"search"},
		"NewExtendedResponse": {"extended"}, "NewModifyResponse": {"modify"},
	}
	// 1. message IDs x constructors (x request numbers)
	for ctor, ops := range reqOpFor {
		for _, op := range ops {
			for _, id := range ids {
				for _, rn := range []int{1, 2, 300} {
					emit(&c04case{ReqOp: op, MsgID: id, ReqNum: rn, Ctor: ctor, EntryDN: "cn=e", Opts: []c04step{{Kind: "opt:code", Int: 0}}})
				}
			}
		}
	}
	// 2. option subsets in every order x values
	type optgen func() []c04step
	codeOpts := func() []c04step {
		var o []c04step
		for _, v := range codes {
			o = append(o, c04step{Kind: "opt:code", Int: v})
		}
		return o
	}
	strOpts := func(kind string) optgen {
		return func() []c04step {
			var o []c04step
			for _, v := range S {
				o = append(o, c04step{Kind: kind, Str: v})
			}
			return o
		}
	}
	appOpts := func() []c04step {
		var o []c04step
		for v := 0; v <= 30; v++ {
			if v == codec.AppSearchEntry {
				continue
			}
			o = append(o, c04step{Kind: "opt:app", Int: v})
		}
		return o
	}
	supported := map[string][]optgen{
		"NewResponse":           {codeOpts, appOpts, strOpts("opt:diag"), strOpts("opt:matched")},
		"NewBindResponse":       {codeOpts},
		"NewSearchDoneResponse": {codeOpts},
		"NewExtendedResponse":   {codeOpts},
		"NewModifyResponse":     {codeOpts, strOpts("opt:diag"), strOpts("opt:matched")},
	}
	setterAlpha := func(ctor string) []c04step {
		var o []c04step
		for _, v := range codes {
			o = append(o, c04step{Kind: "set:code", Int: v})
		}
		for _, v := range S {
			o = append(o, c04step{Kind: "set:diag", Str: v}, c04step{Kind: "set:matched", Str: v})
		}
		return o
	}
	var ctors []string
	for k := range supported {
		ctors = append(ctors, k)
	}
	sort.Strings(ctors)
	for _, ctor := range ctors {
		gens := supported[ctor]
		op := reqOpFor[ctor][0]
		subsetsInOrder(len(gens), func(order []int) {
			if ctor == "NewModifyResponse" {
				has := false
				for _, i := range order {
					if i == 0 {
						has = true
					}
				}
				if !has {
					return // NewModifyResponse without a response code is C16's finding, not C04's
				}
			}
			// product of the values of the chosen options (bounded: vary one option fully, others over 2 values)
			var rec func(i int, cur []c04step)
			rec = func(i int, cur []c04step) {
				if i == len(order) {
					emit(&c04case{ReqOp: op, MsgID: 4242, Ctor: ctor, Opts: append([]c04step(nil), cur...)})
					return
				}
				vals := gens[order[i]]()
				if len(order) > 2 && !th && len(vals) > 3 {
					vals = []c04step{vals[0], vals[len(vals)/2], vals[len(vals)-1]}
				}
				for _, v := range vals {
					rec(i+1, append(cur, v))
				}
			}
			rec(0, nil)
		})
		// 3. setter sequences of length <= 2 after a fixed and after an empty option list
		sa := setterAlpha(ctor)
		base := [][]c04step{{{Kind: "opt:code", Int: 49}}}
		if ctor != "NewModifyResponse" {
			base = append(base, nil)
		}
		if ctor == "NewResponse" || ctor == "NewModifyResponse" {
			base = append(base, []c04step{{Kind: "opt:code", Int: 1}, {Kind: "opt:diag", Str: "od"}, {Kind: "opt:matched", Str: "om"}})
		}
		for _, b := range base {
			for _, s1 := range sa {
				emit(&c04case{ReqOp: op, MsgID: 70000, Ctor: ctor, Opts: b, Sets: []c04step{s1}})
				for _, s2 := range sa {
					emit(&c04case{ReqOp: op, MsgID: 70000, Ctor: ctor, Opts: b, Sets: []c04step{s1, s2}})
				}
			}
		}
	}
	// 4. controls on Bind and SearchDone
	level := 1
	if th {
		level = 2
	}
	var cts []codec.Control
	for _, ct := range controlAlpha(level) {
		if !ct.NoValue {
			cts = append(cts, ct)
		}
	}
	for _, ctor := range []string{"NewBindResponse", "NewSearchDoneResponse"} {
		op := reqOpFor[ctor][0]
		for _, a := range cts {
			emit(&c04case{ReqOp: op, MsgID: 9, Ctor: ctor, Sets: []c04step{{Kind: "set:controls", Ctl: []codec.Control{a}}, {Kind: "set:code", Int: 49}}})
			emit(&c04case{ReqOp: op, MsgID: 9, Ctor: ctor, Opts: []c04step{{Kind: "opt:code", Int: 0}}, Sets: []c04step{{Kind: "set:diag", Str: "d"}, {Kind: "set:controls", Ctl: []codec.Control{a}}}})
		}
		for _, a := range controlAlpha(0) {
			for _, b := range controlAlpha(0) {
				emit(&c04case{ReqOp: op, MsgID: 9, Ctor: ctor, Sets: []c04step{{Kind: "set:controls", Ctl: []codec.Control{a, b}}}})
			}
		}
		emit(&c04case{ReqOp: op, MsgID: 9, Ctor: ctor, Sets: []c04step{{Kind: "set:controls", Ctl: []codec.Control{cts[0]}}, {Kind: "set:controls", Ctl: nil}}})
	}
	// 5. entries
	names := []string{"cn", "mail", "", "\x00"}
	valLists := [][]string{nil, {}, {"v"}, {""}, {"v", "w"}, {"w", "v"}, {"\x00\xff\x04", S[4]}}
	if th {
		valLists = append(valLists, []string{"a", "b", "c"}, []string{S[len(S)-1]})
	}
	var attrSteps []c04step
	for _, n := range names {
		for _, vl := range valLists {
			attrSteps = append(attrSteps, c04step{Kind: "set:attr", Str: n, Strs: vl})
		}
	}
	maps := []map[string][]string{nil, {}, {"cn": {"v"}}, {"cn": {"v", "w"}, "mail": {"m"}}, {"": {""}}, {"a": nil, "b": {}, "c": {"x", "y", "z"}}}
	for _, dn := range S {
		for _, m := range maps {
			var o []c04step
			if m != nil {
				o = []c04step{{Kind: "opt:attrs", Attrs: m}}
			}
			emit(&c04case{ReqOp: "search", MsgID: 11, Ctor: "NewSearchResponseEntry", EntryDN: dn, Opts: o})
			for _, a := range attrSteps {
				emit(&c04case{ReqOp: "search", MsgID: 11, Ctor: "NewSearchResponseEntry", EntryDN: dn, Opts: o, Sets: []c04step{a}})
			}
		}
	}
	for _, a := range attrSteps {
		for _, b := range attrSteps {
			emit(&c04case{ReqOp: "search", MsgID: 12, Ctor: "NewSearchResponseEntry", EntryDN: "cn=e", Sets: []c04step{a, b}})
			if th {
				emit(&c04case{ReqOp: "search", MsgID: 12, Ctor: "NewSearchResponseEntry", EntryDN: "cn=e", Opts: []c04step{{Kind: "opt:attrs", Attrs: maps[3]}}, Sets: []c04step{a, b, a}})
			}
		}
	}
	// 6. a real go-ldap Search consuming entry + done frames produced by gldap (message ID 1 = go-ldap's first)
	for i, a := range attrSteps {
		if !c.Mine() {
			continue
		}
		b := attrSteps[(i*7+3)%len(attrSteps)]
		c.Count("goldap_search_sessions", 1)
		rq := canonReq("search")
		rq.MsgID = 1
		entry, pk1, e1 := writeResponse(rq.Bytes(), 5, func(req *gldap.Request) gldap.Response {
			e := req.NewSearchResponseEntry("cn=e,dc=a")
			e.AddAttribute(a.Str, a.Strs)
			e.AddAttribute(b.Str, b.Strs)
			return e
		})
		done, pk2, e2 := writeResponse(rq.Bytes(), 5, func(req *gldap.Request) gldap.Response {
			return req.NewSearchDoneResponse(gldap.WithResponseCode(0))
		})
		if pk1 != "" || pk2 != "" || e1 != nil || e2 != nil {
			continue // reported by the strict path above
		}
		res, err := goLdapSearch([][]byte{entry, done})
		key := "a go-ldap Search does not recover the entry gldap wrote"
		det := fmt.Sprintf("attrs %q=%q, %q=%q entry=%s", a.Str, a.Strs, b.Str, b.Strs, hex.EncodeToString(trunc2(entry)))
		if err != nil || len(res.Entries) != 1 {
			c.Report(key, fmt.Sprintf("%s: err=%v", det, err), nil)
			continue
		}
		e := res.Entries[0]
		if e.DN != "cn=e,dc=a" || len(e.Attributes) != 2 || e.Attributes[0].Name != a.Str || !sliceEq(e.Attributes[0].Values, a.Strs) || e.Attributes[1].Name != b.Str || !sliceEq(e.Attributes[1].Values, b.Strs) {
			c.Report(key, det, nil)
			continue
		}
		c.Outcome("go-ldap search session ok")
	}
}
