package main

import (
	"errors"
	"fmt"
	"net"
	"sync"
	"time"

	"github.com/go-ldap/ldap/v3"
	"verif/codec"
)

// capture: the second independent encoder. A real go-ldap client Conn over net.Pipe issues the typed
// request; the bytes it writes are captured and a canned response lets the call return.

var errNoCapture = errors.New("go-ldap cannot express this request")

func capture(r *codec.Req) ([]byte, error) {
	var ctls []ldap.Control
	for _, c := range r.Controls {
		lc, ok := toGoLdap(c)
		if !ok {
			return nil, errNoCapture
		}
		ctls = append(ctls, lc)
	}
	c1, c2 := net.Pipe()
	defer c1.Close()
	defer c2.Close()
	lc := ldap.NewConn(c1, false)
	lc.SetTimeout(20 * time.Second)
	lc.Start()
	defer lc.Close()

	var mu sync.Mutex
	var first []byte
	got := make(chan struct{})
	go func() { // server side: read frames, answer the first
		var buf []byte
		tmp := make([]byte, 65536)
		answered := false
		for {
			n, err := c2.Read(tmp)
			if n > 0 {
				buf = append(buf, tmp[:n]...)
				if !answered {
					frames, _, _ := codec.Frames(buf)
					if len(frames) > 0 {
						answered = true
						mu.Lock()
						first = append([]byte(nil), frames[0]...)
						mu.Unlock()
						close(got)
						if resp := cannedResponse(frames[0]); resp != nil {
							c2.Write(resp)
						}
					}
				}
			}
			if err != nil {
				return
			}
		}
	}()

	done := make(chan error, 1)
	go func() {
		switch r.Op {
		case "bind":
			_, err := lc.SimpleBind(&ldap.SimpleBindRequest{Username: r.DN, Password: r.Password, Controls: ctls, AllowEmptyPassword: true})
			done <- err
		case "search":
			sr := ldap.NewSearchRequest(r.DN, int(r.Scope), int(r.Deref), int(r.Size), int(r.Time), r.TypesOnly, r.Filter, r.Attrs, ctls)
			_, err := lc.Search(sr)
			done <- err
		case "modify":
			mr := ldap.NewModifyRequest(r.DN, ctls)
			for _, ch := range r.Changes {
				switch ch.Op {
				case 0:
					mr.Add(ch.Type, ch.Vals)
				case 1:
					mr.Delete(ch.Type, ch.Vals)
				case 2:
					mr.Replace(ch.Type, ch.Vals)
				case 3:
					if len(ch.Vals) != 1 {
						done <- errNoCapture
						return
					}
					mr.Increment(ch.Type, ch.Vals[0])
				}
			}
			done <- lc.Modify(mr)
		case "add":
			ar := ldap.NewAddRequest(r.DN, ctls)
			for _, a := range r.Attrs2 {
				ar.Attribute(a.Type, a.Vals)
			}
			done <- lc.Add(ar)
		case "delete":
			done <- lc.Del(ldap.NewDelRequest(r.DN, ctls))
		case "extended":
			if r.Name != codec.OIDWhoAmI || r.HasValue {
				done <- errNoCapture
				return
			}
			_, err := lc.WhoAmI(ctls)
			done <- err
		case "unbind":
			done <- lc.Unbind()
		}
	}()
	select {
	case <-got:
	case err := <-done:
		if err == errNoCapture {
			return nil, err
		}
		select {
		case <-got:
		case <-time.After(5 * time.Second):
			return nil, fmt.Errorf("capture: request not written: %v", err)
		}
	case <-time.After(20 * time.Second):
		return nil, errors.New("capture: timeout")
	}
	mu.Lock()
	defer mu.Unlock()
	return first, nil
}

// cannedResponse builds the final response for a captured request frame.
func cannedResponse(frame []byte) []byte {
	n, _, err := codec.ParseOne(frame)
	if err != nil || len(n.Kids) < 2 {
		return nil
	}
	id, _ := codec.DecInt(n.Kids[0].Content)
	var tag int
	switch n.Kids[1].Tag {
	case codec.AppBindRequest:
		tag = codec.AppBindResponse
	case codec.AppSearchRequest:
		tag = codec.AppSearchDone
	case codec.AppModifyRequest:
		tag = codec.AppModifyResponse
	case codec.AppAddRequest:
		tag = codec.AppAddResponse
	case codec.AppDelRequest:
		tag = codec.AppDelResponse
	case codec.AppExtendedRequest:
		tag = codec.AppExtendedResp
	default:
		return nil
	}
	return codec.Seq(codec.Int(id), codec.Cons(codec.Application, tag, codec.Enum(0), codec.Octet(""), codec.Octet(""))).Bytes()
}
