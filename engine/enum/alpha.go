package main

import (
	"strings"

	"verif/codec"
)

// Field alphabets shared by the ENUM checks (DESIGN.md section 5 conventions).

func strAlpha(thorough bool) []string {
	a := []string{"", "a", "\x00\xff\x04", "cn=alice,ou=people,dc=example,dc=org", strings.Repeat("L", 200)}
	if thorough {
		a = append(a, strings.Repeat("H", 70000))
	}
	return a
}

var intAlpha = []int64{0, 1, 127, 128, 255, 256, 32767, 32768, 65535, 1<<31 - 1}

// controlAlpha returns the control values; level 0 = one per kind, 1 = quick, 2 = thorough.
func controlAlpha(level int) []codec.Control {
	mk := func(k string) codec.Control { return codec.Control{Kind: k, Expire: -1, Grace: -1, Err: -1} }
	var out []codec.Control
	add := func(c codec.Control) { out = append(out, c) }
	// paging
	sizes := []uint32{0, 1, 127, 128, 65535, 1 << 31, 1<<32 - 1}
	cookies := [][]byte{nil, {0x07}, {0x00, 0xff, 0x30, 0x03}, []byte(strings.Repeat("c", 200))}
	if level >= 3 {
		// every power of two of the field's width, with both neighbours; cookie lengths around the BER length-form boundaries
		sizes = nil
		for k := uint(0); k <= 32; k++ {
			for _, d := range []int64{-1, 0, 1} {
				if v := int64(1)<<k + d; v >= 0 && v <= 1<<32-1 {
					sizes = append(sizes, uint32(v))
				}
			}
		}
		for _, n := range []int{1, 2, 126, 127, 128, 129, 255, 256, 257, 65535, 65536} {
			ck := make([]byte, n)
			for i := range ck {
				ck[i] = byte(i*7 + n)
			}
			cookies = append(cookies, ck)
		}
	}
	if level == 0 {
		sizes, cookies = []uint32{128}, [][]byte{{0x07}}
	} else if level == 1 {
		sizes = []uint32{0, 128, 65535, 1<<32 - 1}
		cookies = [][]byte{nil, {0x00, 0xff, 0x30, 0x03}, []byte(strings.Repeat("c", 200))}
	}
	for _, s := range sizes {
		for _, ck := range cookies {
			c := mk("paging")
			c.Size, c.Cookie = s, ck
			add(c)
		}
	}
	if level > 0 {
		c := mk("paging")
		c.NoValue = true
		add(c)
	}
	// behera
	ints := intAlpha
	if level >= 3 {
		ints = nil
		for k := uint(0); k <= 62; k++ {
			for _, d := range []int64{-1, 0, 1} {
				if v := int64(1)<<k + d; v >= 0 {
					ints = append(ints, v)
				}
			}
		}
		ints = append(ints, 1<<63-1)
	}
	if level == 0 {
		ints = []int64{128}
	} else if level == 1 {
		ints = []int64{0, 127, 128, 65535, 1<<31 - 1}
	}
	for _, v := range ints {
		g := mk("behera")
		g.Grace = v
		add(g)
		if level > 0 {
			e := mk("behera")
			e.Expire = v
			add(e)
		}
	}
	errs := []int64{0, 1, 2, 3, 4, 5, 6, 7, 8}
	if level == 0 {
		errs = []int64{3}
	} else if level == 1 {
		errs = []int64{0, 5, 8}
	}
	for _, v := range errs {
		e := mk("behera")
		e.Err = v
		add(e)
	}
	if level > 0 {
		c := mk("behera")
		c.NoValue = true
		add(c)
	}
	// vchu
	add(mk("vchu-must"))
	exps := []int64{0, 1, 1<<31 - 1, -1}
	if level == 0 {
		exps = []int64{10}
	}
	for _, v := range exps {
		c := mk("vchu-warn")
		c.Expire = v
		add(c)
	}
	if level > 0 {
		c := mk("vchu-warn")
		c.NoValue = true
		add(c)
	}
	// manage dsa it
	for _, crit := range []bool{false, true} {
		c := mk("managedsait")
		c.Crit = crit
		add(c)
		if level == 0 {
			break
		}
	}
	add(mk("ms-notif"))
	add(mk("ms-showdel"))
	add(mk("ms-ttl"))
	// generic
	oids := []string{"1.2.3.4", codec.OIDWhoAmI}
	vals := []string{"", "v", "\x00\xff\x04", strings.Repeat("V", 200)}
	if level == 0 {
		oids, vals = []string{"1.2.3.4"}, []string{"v"}
	}
	for _, o := range oids {
		for _, crit := range []bool{false, true} {
			for _, v := range vals {
				c := mk("string")
				c.OID, c.Crit, c.Value = o, crit, v
				add(c)
			}
			if level == 0 {
				break
			}
		}
	}
	return out
}
