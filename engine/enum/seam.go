package main

import (
	"bytes"
	"context"
	"io"
	"net"
	"time"

	"github.com/hashicorp/go-hclog"
	"github.com/jimlambrt/gldap"
)

// memConn is an in-memory net.Conn: reads come from In, writes go to Out.
type memConn struct {
	In  *bytes.Reader
	Out bytes.Buffer
}

type memAddr struct{}

func (memAddr) Network() string { return "mem" }
func (memAddr) String() string  { return "mem" }

func (m *memConn) Read(p []byte) (int, error)       { return m.In.Read(p) }
func (m *memConn) Write(p []byte) (int, error)      { return m.Out.Write(p) }
func (m *memConn) Close() error                     { return nil }
func (m *memConn) LocalAddr() net.Addr              { return memAddr{} }
func (m *memConn) RemoteAddr() net.Addr             { return memAddr{} }
func (m *memConn) SetDeadline(time.Time) error      { return nil }
func (m *memConn) SetReadDeadline(time.Time) error  { return nil }
func (m *memConn) SetWriteDeadline(time.Time) error { return nil }

var quietLogger = hclog.New(&hclog.LoggerOptions{Level: hclog.Off, Output: io.Discard})
var debugLogger = hclog.New(&hclog.LoggerOptions{Level: hclog.Debug, Output: io.Discard})

var emptyMux = func() *gldap.Mux { m, _ := gldap.NewMux(); return m }()

// newSeam builds a real gldap conn over an in-memory pipe fed with in.
func newSeam(in []byte, connID int, mux *gldap.Mux, logger hclog.Logger) (*gldap.VConn, *memConn, error) {
	mc := &memConn{In: bytes.NewReader(in)}
	if mux == nil {
		mux = emptyMux
	}
	vc, err := gldap.VNewConn(context.Background(), connID, mc, logger, mux)
	return vc, mc, err
}

// decode runs bytes through the real (*conn).readRequest.
func decode(in []byte, requestID int, debug bool) (*gldap.Request, error) {
	l := quietLogger
	if debug {
		l = debugLogger
	}
	vc, _, err := newSeam(in, 7, nil, l)
	if err != nil {
		return nil, err
	}
	return vc.ReadRequest(requestID)
}
