package main

import (
	"bytes"
	"fmt"

	"github.com/go-ldap/ldap/v3"
	"github.com/jimlambrt/gldap"
	"verif/codec"
)

// ctlDiff compares a control decoded by gldap with the reference record; "" = equal.
func ctlDiff(g gldap.Control, c codec.Control) string {
	if g == nil {
		return "decoded control is nil"
	}
	ref := c
	if ref.NoValue {
		ref.Size, ref.Cookie, ref.Expire, ref.Grace, ref.Err = 0, nil, -1, -1, -1
	}
	switch c.Kind {
	case "paging":
		p, ok := g.(*gldap.ControlPaging)
		if !ok {
			return fmt.Sprintf("type %T, want *ControlPaging", g)
		}
		if p.PagingSize != ref.Size {
			return fmt.Sprintf("PagingSize %d, want %d", p.PagingSize, ref.Size)
		}
		if !bytes.Equal(p.Cookie, ref.Cookie) {
			return fmt.Sprintf("Cookie %x, want %x", trunc2(p.Cookie), trunc2(ref.Cookie))
		}
	case "behera":
		p, ok := g.(*gldap.ControlBeheraPasswordPolicy)
		if !ok {
			return fmt.Sprintf("type %T, want *ControlBeheraPasswordPolicy", g)
		}
		e, _ := p.ErrorCode()
		if int64(p.Grace()) != ref.Grace || int64(p.Expire()) != ref.Expire || int64(e) != ref.Err {
			return fmt.Sprintf("grace/expire/error %d/%d/%d, want %d/%d/%d", p.Grace(), p.Expire(), e, ref.Grace, ref.Expire, ref.Err)
		}
	case "vchu-must":
		p, ok := g.(*gldap.ControlVChuPasswordMustChange)
		if !ok {
			return fmt.Sprintf("type %T, want *ControlVChuPasswordMustChange", g)
		}
		if !p.MustChange {
			return "MustChange false"
		}
	case "vchu-warn":
		p, ok := g.(*gldap.ControlVChuPasswordWarning)
		if !ok {
			return fmt.Sprintf("type %T, want *ControlVChuPasswordWarning", g)
		}
		if p.Expire != ref.Expire {
			return fmt.Sprintf("Expire %d, want %d", p.Expire, ref.Expire)
		}
	case "managedsait":
		p, ok := g.(*gldap.ControlManageDsaIT)
		if !ok {
			return fmt.Sprintf("type %T, want *ControlManageDsaIT", g)
		}
		if p.Criticality != ref.Crit {
			return fmt.Sprintf("Criticality %v, want %v", p.Criticality, ref.Crit)
		}
	case "ms-notif":
		if _, ok := g.(*gldap.ControlMicrosoftNotification); !ok {
			return fmt.Sprintf("type %T, want *ControlMicrosoftNotification", g)
		}
	case "ms-showdel":
		if _, ok := g.(*gldap.ControlMicrosoftShowDeleted); !ok {
			return fmt.Sprintf("type %T, want *ControlMicrosoftShowDeleted", g)
		}
	case "ms-ttl":
		if _, ok := g.(*gldap.ControlMicrosoftServerLinkTTL); !ok {
			return fmt.Sprintf("type %T, want *ControlMicrosoftServerLinkTTL", g)
		}
	case "string":
		p, ok := g.(*gldap.ControlString)
		if !ok {
			return fmt.Sprintf("type %T, want *ControlString", g)
		}
		if p.ControlType != ref.OID {
			return fmt.Sprintf("ControlType %q, want %q", p.ControlType, ref.OID)
		}
		if p.Criticality != ref.Crit {
			return fmt.Sprintf("Criticality %v, want %v", p.Criticality, ref.Crit)
		}
		if p.ControlValue != ref.Value {
			return fmt.Sprintf("ControlValue %q, want %q", trunc(p.ControlValue), trunc(ref.Value))
		}
	default:
		return "harness: unknown kind " + c.Kind
	}
	if g.GetControlType() != cOID(c) {
		return fmt.Sprintf("GetControlType %q, want %q", g.GetControlType(), cOID(c))
	}
	return ""
}

func cOID(c codec.Control) string {
	n := c.Node()
	return string(n.Kids[0].Content)
}

// ctlsDiff compares ordered control lists.
func ctlsDiff(got []gldap.Control, want []codec.Control) string {
	if len(got) != len(want) {
		return fmt.Sprintf("%d controls decoded, %d sent", len(got), len(want))
	}
	for i := range want {
		if d := ctlDiff(got[i], want[i]); d != "" {
			return fmt.Sprintf("control[%d] (%s): %s", i, want[i].Kind, d)
		}
	}
	return ""
}

// toGldap builds the gldap control value for a reference record (response direction of C14, and C04).
func toGldap(c codec.Control) (gldap.Control, error) {
	switch c.Kind {
	case "paging":
		p, err := gldap.NewControlPaging(c.Size)
		if err != nil {
			return nil, err
		}
		p.SetCookie(c.Cookie)
		return p, nil
	case "behera":
		var opts []gldap.Option
		if c.Grace >= 0 {
			opts = append(opts, gldap.WithGraceAuthNsRemaining(uint(c.Grace)))
		}
		if c.Expire >= 0 {
			opts = append(opts, gldap.WithSecondsBeforeExpiration(uint(c.Expire)))
		}
		if c.Err >= 0 {
			opts = append(opts, gldap.WithErrorCode(uint(c.Err)))
		}
		return gldap.NewControlBeheraPasswordPolicy(opts...)
	case "vchu-must":
		return &gldap.ControlVChuPasswordMustChange{MustChange: true}, nil
	case "vchu-warn":
		return &gldap.ControlVChuPasswordWarning{Expire: c.Expire}, nil
	case "managedsait":
		return gldap.NewControlManageDsaIT(gldap.WithCriticality(c.Crit))
	case "ms-notif":
		return gldap.NewControlMicrosoftNotification()
	case "ms-showdel":
		return gldap.NewControlMicrosoftShowDeleted()
	case "ms-ttl":
		return gldap.NewControlMicrosoftServerLinkTTL()
	case "string":
		return gldap.NewControlString(c.OID, gldap.WithCriticality(c.Crit), gldap.WithControlValue(c.Value))
	}
	return nil, fmt.Errorf("unknown kind %s", c.Kind)
}

// toGoLdap builds the go-ldap request control where its encoder can express it (ok=false otherwise).
func toGoLdap(c codec.Control) (ldap.Control, bool) {
	switch c.Kind {
	case "paging":
		if c.NoValue {
			return nil, false
		}
		p := ldap.NewControlPaging(c.Size)
		p.SetCookie(c.Cookie)
		return p, true
	case "behera":
		if c.NoValue {
			return ldap.NewControlBeheraPasswordPolicy(), true
		}
		return nil, false
	case "managedsait":
		return ldap.NewControlManageDsaIT(c.Crit), true
	case "ms-notif":
		return ldap.NewControlMicrosoftNotification(), true
	case "ms-showdel":
		return ldap.NewControlMicrosoftShowDeleted(), true
	case "ms-ttl":
		return ldap.NewControlMicrosoftServerLinkTTL(), true
	case "string":
		return ldap.NewControlString(c.OID, c.Crit, c.Value), true
	}
	return nil, false
}

// goLdapDiff compares a control decoded by go-ldap with the reference record.
func goLdapDiff(g ldap.Control, c codec.Control) string {
	if g == nil {
		return "go-ldap decoded nil"
	}
	switch c.Kind {
	case "paging":
		p, ok := g.(*ldap.ControlPaging)
		if !ok {
			return fmt.Sprintf("go-ldap type %T", g)
		}
		if p.PagingSize != c.Size || !bytes.Equal(p.Cookie, c.Cookie) {
			return fmt.Sprintf("go-ldap size/cookie %d/%x want %d/%x", p.PagingSize, trunc2(p.Cookie), c.Size, trunc2(c.Cookie))
		}
	case "behera":
		p, ok := g.(*ldap.ControlBeheraPasswordPolicy)
		if !ok {
			return fmt.Sprintf("go-ldap type %T", g)
		}
		if p.Grace != c.Grace || p.Expire != c.Expire || int64(p.Error) != c.Err {
			return fmt.Sprintf("go-ldap grace/expire/error %d/%d/%d want %d/%d/%d", p.Grace, p.Expire, p.Error, c.Grace, c.Expire, c.Err)
		}
	case "vchu-must":
		p, ok := g.(*ldap.ControlVChuPasswordMustChange)
		if !ok {
			return fmt.Sprintf("go-ldap type %T", g)
		}
		if !p.MustChange {
			return "go-ldap MustChange false"
		}
	case "vchu-warn":
		p, ok := g.(*ldap.ControlVChuPasswordWarning)
		if !ok {
			return fmt.Sprintf("go-ldap type %T", g)
		}
		if p.Expire != c.Expire {
			return fmt.Sprintf("go-ldap Expire %d want %d", p.Expire, c.Expire)
		}
	case "managedsait":
		p, ok := g.(*ldap.ControlManageDsaIT)
		if !ok {
			return fmt.Sprintf("go-ldap type %T", g)
		}
		if p.Criticality != c.Crit {
			return fmt.Sprintf("go-ldap Criticality %v want %v", p.Criticality, c.Crit)
		}
	case "ms-notif":
		if _, ok := g.(*ldap.ControlMicrosoftNotification); !ok {
			return fmt.Sprintf("go-ldap type %T", g)
		}
	case "ms-showdel":
		if _, ok := g.(*ldap.ControlMicrosoftShowDeleted); !ok {
			return fmt.Sprintf("go-ldap type %T", g)
		}
	case "ms-ttl":
		if _, ok := g.(*ldap.ControlMicrosoftServerLinkTTL); !ok {
			return fmt.Sprintf("go-ldap type %T", g)
		}
	case "string":
		p, ok := g.(*ldap.ControlString)
		if !ok {
			return fmt.Sprintf("go-ldap type %T", g)
		}
		if p.ControlType != c.OID || p.Criticality != c.Crit || p.ControlValue != c.Value {
			return fmt.Sprintf("go-ldap %q/%v/%q want %q/%v/%q", p.ControlType, p.Criticality, trunc(p.ControlValue), c.OID, c.Crit, trunc(c.Value))
		}
	}
	return ""
}
