package main

import (
	"encoding/hex"
	"encoding/json"
	"fmt"
	"hash/fnv"
	"strings"

	"verif/codec"
	"verif/ev"
)

// C02 — no byte sequence from a client makes request decoding panic.
// States: byte strings. Initial: canonical encodings (operation x control kind). Transitions: one
// shape/type/length mutation. BFS to depth 2.

func init() {
	checks["C02"] = &Check{
		Shards: func(tier string) int { return 32 },
		Run:    c02run,
		Finalize: func(m *shardOut, r *ev.Run) {
			r.Cov["states"] = m.Counts["states"]
			r.Cov["transitions"] = m.Counts["transitions"]
			r.Cov["traces_validated_against_impl"] = m.Counts["decodes"]
			r.Cov["evaluations"] = m.Counts["decodes"]
			r.Cov["distinct_nontrivial"] = len(m.Outc)
			r.Cov["rule"] = "state = mutated byte string; every state is decoded by the real (*conn).readRequest in three contexts (first frame with an error-level logger, first frame with a debug-level logger, second frame after a valid request on the same connection) under recover(); states are deduplicated per first-mutation subtree (sum is an upper bound on globally distinct states); distinct_nontrivial = distinct (operation, outcome class) pairs where outcome is decoded / error class / panic site"
			r.Cov["samples"] = m.Samp
			r.Cov["canonical_packets"] = m.Counts["canonical"]
			r.Cov["depth1_states"] = m.Counts["depth1"]
			r.Cov["depth2_states"] = m.Counts["depth2"]
			r.Cov["depth_completed"] = map[bool]int{true: 2, false: 1}[m.Counts["depth2_complete_roots"] == m.Counts["canonical"] && !m.CapHit]
			r.Cov["depth2_roots_completed"] = m.Counts["depth2_complete_roots"]
			r.Cov["outcomes"] = m.Outc
			r.Cov["exhaustive"] = !m.CapHit
			r.Assume = []string{
				"mutation alphabet: 30 replacement node kinds, child delete/duplicate/swap/append, 9 length-octet corruptions, 4 content corruptions, truncation at every byte offset; raw streams of 0..3 bytes followed by the end of the stream",
				"announced lengths are capped at 1 MiB (go-asn1-ber allocates the announced length before reading)",
				"clause (b) of the quantifier (coverage-guided random byte streams) is sampling and is not part of this check",
				"the recover() wrapper stands for both server configurations: with recovery disabled the process would die, with it enabled the connection-level recover would swallow the panic",
			}
		},
		Replay: func(p json.RawMessage, c *Ctx) {
			var rep struct {
				Hex string `json:"hex"`
			}
			json.Unmarshal(p, &rep)
			b, _ := hex.DecodeString(rep.Hex)
			c02decode(c, "replay", b, "replay")
		},
	}
}

// canonical packets: each operation without controls and with each control kind (level 0 alphabet).
func c02canon() []*codec.Node {
	var out []*codec.Node
	ctls := controlAlpha(0)
	for _, op := range allOps {
		out = append(out, canonReq(op).Node())
		for _, ct := range ctls {
			r := canonReq(op)
			r.Controls = []codec.Control{ct}
			out = append(out, r.Node())
		}
	}
	// a search with a composite filter, a modify with two changes, an add with two attributes, two controls
	s := canonReq("search")
	s.FilterBER = codec.Cons(codec.Context, 0, // and
		codec.Cons(codec.Context, 1, codec.Cons(codec.Context, 3, codec.Octet("cn"), codec.Octet("x")), codec.CtxPrim(7, "sn")),                                       // or(eq, present)
		codec.Cons(codec.Context, 2, codec.Cons(codec.Context, 4, codec.Octet("cn"), codec.Seq(codec.CtxPrim(0, "a"), codec.CtxPrim(1, "b"), codec.CtxPrim(2, "c")))), // not(substrings)
		codec.Cons(codec.Context, 9, codec.CtxPrim(1, "1.2.3"), codec.CtxPrim(2, "cn"), codec.CtxPrim(3, "v"), codec.Prim(codec.Context, 4, []byte{0xff})),            // extensible
	).Bytes()
	s.Attrs = []string{"cn", "mail"}
	out = append(out, s.Node())
	m := canonReq("modify")
	m.Changes = append(m.Changes, codec.Change{Op: 2, Type: "sn", Vals: []string{"a", "b"}})
	out = append(out, m.Node())
	a := canonReq("add")
	a.Attrs2 = append(a.Attrs2, codec.Attr{Type: "sn", Vals: []string{"a", "b"}})
	out = append(out, a.Node())
	b := canonReq("bind")
	b.Controls = []codec.Control{ctls[0], ctls[1]}
	out = append(out, b.Node())
	e := canonReq("extended")
	e.HasValue, e.Value = true, "v"
	out = append(out, e.Node())
	return out
}

func replacements() []*codec.Node {
	r := []*codec.Node{
		codec.Int(1), codec.Int(3), codec.Bool(true), codec.Octet("x"), codec.Octet(""), codec.Null(), codec.Enum(1),
		codec.Seq(), codec.Seq(codec.Octet("x")), codec.Set(), codec.Set(codec.Octet("x")),
	}
	for t := 0; t < 4; t++ {
		r = append(r, codec.CtxPrim(t, "x"), codec.Cons(codec.Context, t), codec.Cons(codec.Context, t, codec.Octet("x")))
	}
	r = append(r,
		codec.Prim(codec.Application, 2, nil), codec.Prim(codec.Application, 10, []byte("x")), codec.Prim(codec.Application, 23, []byte("x")),
		codec.Cons(codec.Application, 0), codec.Cons(codec.Application, 3, codec.Octet("x")), codec.Cons(codec.Application, 23), codec.Cons(codec.Application, 14, codec.Octet("x")),
	)
	return r
}

var c02repl = replacements()

// walk visits every node (pre-order), descending into Inner, with a setter to replace it in its parent.
func walk(root *codec.Node, f func(n *codec.Node, parent *codec.Node, idx int)) {
	var rec func(n, parent *codec.Node, idx int)
	rec = func(n, parent *codec.Node, idx int) {
		f(n, parent, idx)
		if n.Inner != nil {
			rec(n.Inner, n, -1)
		}
		for i, k := range n.Kids {
			rec(k, n, i)
		}
	}
	rec(root, nil, -2)
}

func countNodes(root *codec.Node) int {
	n := 0
	walk(root, func(*codec.Node, *codec.Node, int) { n++ })
	return n
}

// nth returns the i-th node in walk order of a fresh clone, with its parent and index.
func nth(root *codec.Node, i int) (clone, n, parent *codec.Node, idx int) {
	clone = root.Clone()
	k := 0
	walk(clone, func(x, p *codec.Node, ix int) {
		if k == i {
			n, parent, idx = x, p, ix
		}
		k++
	})
	return
}

func setChild(parent *codec.Node, idx int, repl *codec.Node) {
	if idx == -1 {
		parent.Inner = repl
	} else {
		parent.Kids[idx] = repl
	}
}

func bodyLen(n *codec.Node) int {
	switch {
	case n.Constructed:
		l := 0
		for _, k := range n.Kids {
			l += len(k.Bytes())
		}
		return l
	case n.Inner != nil:
		return len(n.Inner.Bytes())
	}
	return len(n.Content)
}

// mutants enumerates every single mutation of root as a tree (emit may keep it: trees are fresh clones).
func mutants(root *codec.Node, emit func(desc string, t *codec.Node)) { mutantsX(root, false, emit) }

// retags: the identifier octets a node can be given (every class, both forms, tag numbers 0..31 and two
// larger ones in high-tag-number form)
var retagNumbers = func() []int {
	var t []int
	for i := 0; i <= 31; i++ {
		t = append(t, i)
	}
	return append(t, 40, 200)
}()

// mutantsX: with retag, every node is additionally given every identifier of retagNumbers x class x form,
// once with its own content octets and once empty (depth 1 only: 544 variants per node).
func mutantsX(root *codec.Node, retag bool, emit func(desc string, t *codec.Node)) {
	nn := countNodes(root)
	for i := 0; i < nn; i++ {
		_, orig, _, _ := nth(root, i)
		// 1. replacement
		for ri, r := range c02repl {
			cl, _, p, idx := nth(root, i)
			if p == nil {
				emit(fmt.Sprintf("replace#%d:%d", i, ri), r.Clone())
				continue
			}
			setChild(p, idx, r.Clone())
			emit(fmt.Sprintf("replace#%d:%d", i, ri), cl)
		}
		// 2. child list edits
		if orig.Constructed {
			for k := range orig.Kids {
				cl, n, _, _ := nth(root, i)
				n.Kids = append(n.Kids[:k:k], n.Kids[k+1:]...)
				emit(fmt.Sprintf("delete#%d.%d", i, k), cl)
				cl, n, _, _ = nth(root, i)
				dup := n.Kids[k].Clone()
				n.Kids = append(n.Kids[:k+1:k+1], append([]*codec.Node{dup}, n.Kids[k+1:]...)...)
				emit(fmt.Sprintf("dup#%d.%d", i, k), cl)
				if k+1 < len(orig.Kids) {
					cl, n, _, _ = nth(root, i)
					n.Kids[k], n.Kids[k+1] = n.Kids[k+1], n.Kids[k]
					emit(fmt.Sprintf("swap#%d.%d", i, k), cl)
				}
			}
			for ai, a := range []*codec.Node{codec.Octet("x"), codec.Int(1), codec.Seq(), codec.Bool(true)} {
				cl, n, _, _ := nth(root, i)
				n.Kids = append(n.Kids, a.Clone())
				emit(fmt.Sprintf("append#%d:%d", i, ai), cl)
				cl, n, _, _ = nth(root, i)
				n.Kids = append([]*codec.Node{a.Clone()}, n.Kids...)
				emit(fmt.Sprintf("prepend#%d:%d", i, ai), cl)
			}
		} else if orig.Raw == nil {
			// 3. content corruptions of primitives
			for ci, content := range [][]byte{{}, {0x80}, {0xff, 0xff, 0xff, 0xff, 0xff, 0xff, 0xff, 0xff, 0xff}, {0x30, 0x03, 0x02, 0x01, 0x01}} {
				cl, n, _, _ := nth(root, i)
				n.Inner = nil
				n.Content = content
				emit(fmt.Sprintf("content#%d:%d", i, ci), cl)
			}
			// flip primitive <-> constructed
			cl, n, _, _ := nth(root, i)
			n.Constructed = true
			n.Inner = nil
			n.Kids = []*codec.Node{codec.Octet("x")}
			emit(fmt.Sprintf("constructed#%d", i), cl)
		}
		// 5. identifier octets
		if retag && orig.Raw == nil {
			body := orig.Body()
			for class := 0; class < 4; class++ {
				for form := 0; form < 2; form++ {
					for _, tag := range retagNumbers {
						if class == orig.Class && (form == 1) == orig.Constructed && tag == orig.Tag {
							continue
						}
						for bi, bd := range [][]byte{body, {}} {
							if bi == 1 && len(body) == 0 {
								continue
							}
							cl, n, _, _ := nth(root, i)
							raw := append(codec.Ident(class, form == 1, tag), encL(len(bd))...)
							n.Raw = append(raw, bd...)
							emit(fmt.Sprintf("ident#%d:%d/%d/%d/%d", i, class, form, tag, bi), cl)
						}
					}
				}
			}
		}
		// 4. length-octet corruptions
		if orig.Raw == nil {
			L := bodyLen(orig)
			big := L + 65536
			lens := [][]byte{{0}, encL(L - 1), encL(L + 1), {0x80}, {0x81, 0x00}, {0x84, 0, 0, byte(L >> 8), byte(L)}, {0xff}, {0x89, 0, 0, 0, 0, 0, 0, 0, 0, byte(L)}, {0x83, byte(big >> 16), byte(big >> 8), byte(big)}}
			for li, lo := range lens {
				if lo == nil {
					continue
				}
				cl, n, _, _ := nth(root, i)
				n.LenOverride = lo
				emit(fmt.Sprintf("len#%d:%d", i, li), cl)
			}
		}
	}
}

func encL(n int) []byte {
	if n < 0 {
		return nil
	}
	if n < 128 {
		return []byte{byte(n)}
	}
	if n < 256 {
		return []byte{0x81, byte(n)}
	}
	return []byte{0x82, byte(n >> 8), byte(n)}
}

func h64(b []byte) uint64 {
	h := fnv.New64a()
	h.Write(b)
	return h.Sum64()
}

func opOf(b []byte) string {
	n, _, err := codec.ParseOne(b)
	if err != nil || !n.Constructed || len(n.Kids) < 2 {
		return "?"
	}
	o := n.Kids[1]
	if o.Class == codec.Application {
		return fmt.Sprintf("app%d", o.Tag)
	}
	return "?"
}

var c02prefix = canonReq("bind").Bytes()

// c02decode decodes b in three contexts: first frame of a fresh connection (error-level and debug-level
// logger) and second frame of a connection whose first frame was a valid request.
func c02decode(c *Ctx, opname string, b []byte, desc string) {
	for ctx := 0; ctx < 3; ctx++ {
		c.Count("decodes", 1)
		var err error
		ok := false
		k := try(func() {
			switch ctx {
			case 0, 1:
				r, e := decode(b, 1, ctx == 1)
				err = e
				ok = r != nil
			case 2:
				vc, _, e := newSeam(append(append([]byte(nil), c02prefix...), b...), 7, nil, quietLogger)
				if e != nil {
					err = e
					return
				}
				if _, e := vc.ReadRequest(1); e != nil {
					panic("harness: the valid first frame does not decode: " + e.Error())
				}
				r, e := vc.ReadRequest(2)
				err = e
				ok = r != nil
			}
		})
		switch {
		case k != "":
			c.Outcome(opname + ":" + k)
			c.Report(k, fmt.Sprintf("decoding %x (%s, context %s) panicked", trunc(string(b)), desc, [...]string{"first frame", "first frame, debug logger", "second frame after a valid bind"}[ctx]), map[string]string{"hex": hex.EncodeToString(b), "mutation": desc})
		case err != nil && (strings.Contains(err.Error(), "runtime error") || strings.Contains(err.Error(), "nil pointer dereference")):
			// a panic that was recovered somewhere below readRequest and dressed up as an error is still a decode panic
			c.Outcome(opname + ":recovered-panic")
			c.Report("a decode panic is recovered inside the decoder and returned as an error", fmt.Sprintf("decoding %x (%s): %v", trunc(string(b)), desc, err), map[string]string{"hex": hex.EncodeToString(b), "mutation": desc})
		case err != nil:
			c.Outcome(opname + ":error")
		case ok:
			c.Outcome(opname + ":decoded")
		}
	}
}

func c02run(c *Ctx) {
	// ---- short raw streams: every stream of one or two bytes followed by the end of the stream, and every
	// three-byte stream that starts like an LDAPMessage or like a TLS record (what a wrong-protocol client sends)
	shortStream := func(b []byte) {
		if !c.Mine() {
			return
		}
		c.Count("states", 1)
		c.Count("transitions", 1)
		c.Count("short_streams", 1)
		c02decode(c, "raw", b, fmt.Sprintf("raw stream % x then end of stream", b))
	}
	shortStream(nil)
	for a := 0; a < 256; a++ {
		shortStream([]byte{byte(a)})
		for b := 0; b < 256; b++ {
			if a == 0x30 || a == 0x16 || a == 0x80 || a == 0x15 || b%17 == 3 || c.Thorough() {
				shortStream([]byte{byte(a), byte(b)})
			}
			if (a == 0x30 || a == 0x16) && (c.Thorough() || b < 8 || b >= 0x80 && b < 0x88) {
				for d := 0; d < 256; d++ {
					shortStream([]byte{byte(a), byte(b), byte(d)})
				}
			}
		}
	}
	canon := c02canon()
	for ci, root := range canon {
		op := opOf(root.Bytes())
		rootBytes := root.Bytes()
		if c.Mine() {
			c.Count("canonical", 1)
			c.Count("states", 1)
			c02decode(c, op, rootBytes, fmt.Sprintf("canonical#%d", ci))
			// truncation at every byte offset (a transition each)
			for l := 0; l < len(rootBytes); l++ {
				c.Count("transitions", 1)
				c.Count("states", 1)
				c.Count("depth1", 1)
				c02decode(c, op, rootBytes[:l], fmt.Sprintf("canonical#%d truncate@%d", ci, l))
			}
		}
		// depth 1 (every single mutation), each first mutation is a work item
		depth2 := c.Thorough() || len(root.Kids) <= 2 || ci%13 == 1 // quick: depth 2 on packets without controls and on a rotating subset
		complete := true
		mutantsX(root, true, func(d1 string, t1 *codec.Node) {
			if !c.Mine() {
				return
			}
			if c.Expired() {
				complete = false
				return
			}
			b1 := t1.Bytes()
			c.Count("transitions", 1)
			c.Count("states", 1)
			c.Count("depth1", 1)
			if c.n%5003 == 11 || len(c.Samp) < 2 {
				c.Sample(map[string]string{"canonical": fmt.Sprint(ci), "mutation": d1, "hex": hex.EncodeToString(trunc2(b1))})
			}
			c02decode(c, op, b1, fmt.Sprintf("canonical#%d %s", ci, d1))
			if !depth2 || strings.HasPrefix(d1, "ident#") {
				return // identifier variants are a depth-1 alphabet only
			}
			seen := map[uint64]struct{}{h64(b1): {}, h64(rootBytes): {}}
			mutants(t1, func(d2 string, t2 *codec.Node) {
				b2 := t2.Bytes()
				c.Count("transitions", 1)
				h := h64(b2)
				if _, dup := seen[h]; dup {
					return
				}
				seen[h] = struct{}{}
				c.Count("states", 1)
				c.Count("depth2", 1)
				c02decode(c, op, b2, fmt.Sprintf("canonical#%d %s %s", ci, d1, d2))
			})
		})
		if depth2 && complete {
			// counted once per root by the shard that owns work item 0 of it: use shard 0
			if c.Shard == 0 {
				c.Count("depth2_complete_roots", 1)
			}
		}
	}
}

func trunc2(b []byte) []byte {
	if len(b) > 120 {
		return b[:120]
	}
	return b
}
