// Package ev: evidence files, known findings and violation reporting shared by all workers.
package ev

import (
	"crypto/sha1"
	"encoding/hex"
	"encoding/json"
	"fmt"
	"os"
	"path/filepath"
	"sort"
	"strconv"
	"sync"
	"time"
)

var Root = func() string {
	if r := os.Getenv("VERIF_ROOT"); r != "" {
		return r
	}
	return "/verif"
}()

type Finding struct {
	Property string `json:"property"`
	Status   string `json:"status"` // open | fixed
	Key      string `json:"key"`
	What     string `json:"what"`
	Commit   string `json:"commit,omitempty"`
}

type Violation struct {
	Key    string      `json:"key"`    // identity of the witness (stable under unrelated edits)
	Detail string      `json:"detail"` // human-readable
	Replay interface{} `json:"replay"` // what `check replay` needs
	Count  int         `json:"count"`
}

type Run struct {
	Property string
	Tier     string
	Seed     int
	Engine   string // enum | sched | real
	start    time.Time
	mu       sync.Mutex
	viol     map[string]*Violation
	order    []string
	Cov      map[string]interface{}
	Assume   []string
	Replay   bool // replay mode: never write evidence
}

func Tier() string {
	t := os.Getenv("VERIF_TIER")
	if t == "" {
		t = "quick"
	}
	return t
}

func Seed() int {
	n, _ := strconv.Atoi(os.Getenv("VERIF_SEED"))
	return n
}

func New(prop, tier, engine string) *Run {
	return &Run{Property: prop, Tier: tier, Seed: Seed(), Engine: engine, start: time.Now(), viol: map[string]*Violation{}, Cov: map[string]interface{}{}}
}

// Report records a violation witness. Only the first witness per key keeps its replay payload.
func (r *Run) Report(key, detail string, replay interface{}) {
	r.mu.Lock()
	defer r.mu.Unlock()
	if v, ok := r.viol[key]; ok {
		v.Count++
		return
	}
	r.viol[key] = &Violation{Key: key, Detail: detail, Replay: replay, Count: 1}
	r.order = append(r.order, key)
}

func (r *Run) NViolations() int { r.mu.Lock(); defer r.mu.Unlock(); return len(r.viol) }

func (r *Run) Violations() []*Violation {
	r.mu.Lock()
	defer r.mu.Unlock()
	var out []*Violation
	for _, k := range r.order {
		out = append(out, r.viol[k])
	}
	return out
}

func loadFindings() []Finding {
	var fs []Finding
	b, err := os.ReadFile(filepath.Join(Root, "known_findings.json"))
	if err != nil {
		return nil
	}
	var doc struct {
		Findings []Finding `json:"findings"`
	}
	if err := json.Unmarshal(b, &doc); err != nil {
		fmt.Fprintf(os.Stderr, "known_findings.json: %v\n", err)
		os.Exit(2)
	}
	fs = doc.Findings
	return fs
}

// Finish writes the evidence file, prints KNOWN-FINDING / VIOLATION lines and returns the exit code.
func (r *Run) Finish(level string) int {
	known := map[string]Finding{}
	for _, f := range loadFindings() {
		if f.Property == r.Property && f.Status == "open" {
			known[f.Key] = f
		}
	}
	exit := 0
	var knownHit []string
	nviol := 0
	vs := r.Violations()
	sort.SliceStable(vs, func(i, j int) bool { return vs[i].Key < vs[j].Key })
	for _, v := range vs {
		if f, ok := known[v.Key]; ok {
			fmt.Printf("KNOWN-FINDING: property=%s %s [%s] (x%d)\n", r.Property, f.What, v.Key, v.Count)
			knownHit = append(knownHit, v.Key)
			continue
		}
		nviol++
		path := r.writeReplay(v)
		fmt.Printf("VIOLATION property=%s replay=%s\n", r.Property, path)
		fmt.Printf("  key: %s\n  detail: %s\n  occurrences: %d\n", v.Key, v.Detail, v.Count)
		exit = 1
	}
	if r.Replay || os.Getenv("VERIF_NO_EVIDENCE") != "" {
		return exit
	}
	if knownHit == nil {
		knownHit = []string{}
	}
	if r.Assume == nil {
		r.Assume = []string{}
	}
	r.Cov["known_findings_hit"] = knownHit
	doc := map[string]interface{}{
		"property_id": r.Property,
		"tier":        r.Tier,
		"seed":        r.Seed,
		"level":       level,
		"coverage":    r.Cov,
		"assumptions": r.Assume,
		"wall_s":      time.Since(r.start).Seconds(),
		"violations":  nviol,
	}
	b, _ := json.MarshalIndent(doc, "", " ")
	dir := filepath.Join(Root, "evidence")
	os.MkdirAll(dir, 0o755)
	if err := os.WriteFile(filepath.Join(dir, r.Property+".json"), append(b, '\n'), 0o644); err != nil {
		fmt.Fprintf(os.Stderr, "evidence: %v\n", err)
		return 2
	}
	return exit
}

func (r *Run) writeReplay(v *Violation) string {
	dir := filepath.Join(Root, "replays")
	os.MkdirAll(dir, 0o755)
	h := sha1.Sum([]byte(v.Key))
	path := filepath.Join(dir, r.Property+"-"+hex.EncodeToString(h[:5])+".json")
	doc := map[string]interface{}{"property": r.Property, "engine": r.Engine, "key": v.Key, "detail": v.Detail, "replay": v.Replay}
	b, _ := json.MarshalIndent(doc, "", " ")
	os.WriteFile(path, append(b, '\n'), 0o644)
	return path
}

// Samples keeps the first n items offered.
type Samples struct {
	mu  sync.Mutex
	N   int
	Got []interface{}
}

func (s *Samples) Offer(x interface{}) {
	s.mu.Lock()
	if len(s.Got) < s.N {
		s.Got = append(s.Got, x)
	}
	s.mu.Unlock()
}
