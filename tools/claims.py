NA = {}
chk("C16", "enum", "model_checking",
    "Exhaustive enumeration of finite input families of every exported helper/constructor named by the property (all strings up to a length bound over a 9-byte alphabet that covers every branch of the length decoder, all 2^24 (revision, authority) pairs, all byte slices up to a length bound, every subset and order of constructor options, op sequences on attributes), each executed on the real function under recover() and compared with the equations of the statement.",
    "bounded-exhaustive enumeration of inputs against reference equations", "DESIGN.md 5 C16", ENUM_NOTE)
