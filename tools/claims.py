NA = {}
chk("C16", "enum", "model_checking",
    "Exhaustive enumeration of finite input families of every exported helper/constructor named by the property (all strings up to a length bound over a 9-byte alphabet that covers every branch of the length decoder, all 2^24 (revision, authority) pairs, all byte slices up to a length bound, every subset and order of constructor options, op sequences on attributes), each executed on the real function under recover() and compared with the equations of the statement.",
    "bounded-exhaustive enumeration of inputs against reference equations", "DESIGN.md 5 C16", ENUM_NOTE)
chk("C01", "enum", "model_checking",
    "Bounded-exhaustive enumeration of typed requests over explicit field alphabets (message IDs, strings incl. empty/binary/long-form, every scope/deref, size/time pairs, 15 filter shapes, 0..2(3) attributes / changes / values, every control kind singly and in ordered pairs), encoded by two independent encoders (raw BER builder; captured go-ldap client) and decoded by the real readRequest; field-by-field comparison with the typed request; every unsupported protocolOp tag 0..30 in 11 body shapes and every bind version/SASL form must not be delivered as a supported kind.",
    "bounded-exhaustive input enumeration, differential against two independent encoders", "DESIGN.md 5 C01", ENUM_NOTE)
chk("C02", "enum", "model_checking",
    "Explicit-state BFS over the mutation graph of every canonical request (operation x control kind): all single mutations (30 replacement node kinds at every node, child delete/duplicate/swap/append/prepend, 9 length-octet corruptions, 4 content corruptions, truncation at every byte) and all pairs of mutations (quick: on a stated subset of roots; thorough: all roots), each state decoded by the real readRequest with error-level and debug-level loggers under recover().",
    "explicit-state BFS over a mutation graph to depth 2 on the real decoder", "DESIGN.md 5 C02", ENUM_NOTE)
chk("C14", "enum", "model_checking",
    "Exhaustive enumeration of control values over field alphabets, singly and in ordered pairs, in both directions: raw-BER controls on five request envelopes through the real request decoder; gldap control values on Bind and SearchDone responses through the real ResponseWriter, re-parsed by the strict parser and by go-ldap's DecodeControl; plus the complete Behera constructor table over 14 values per option.",
    "bounded-exhaustive enumeration, two independent decoders", "DESIGN.md 5 C14", ENUM_NOTE)
