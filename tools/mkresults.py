#!/usr/bin/env python3
# tools/mkresults.py : seeded/RESULTS.md and the detected_by fields of seeded/*/meta.json from seeded/*/detected.txt
import json,os,re,glob
rows=[]
for d in sorted(glob.glob('seeded/C*-*'), key=lambda p:(p.split('/')[-1].split('-')[0], int(p.split('-')[-1]))):
    id=os.path.basename(d)
    f=os.path.join(d,'detected.txt')
    if not os.path.exists(f): continue
    det,sil,first=[],[],''
    for line in open(f):
        m=re.match(r'(C\d+) exit=(\d+) ?(.*)',line.strip())
        if not m: continue
        chk,code,keys=m.groups()
        if code=='1':
            det.append(chk)
            if not first and chk==id.split('-')[0]: first=keys.split(';')[0]
        else: sil.append(chk+('' if code=='0' else f'(exit {code})'))
    if not first:
        for line in open(f):
            m=re.match(r'(C\d+) exit=1 (.*)',line.strip())
            if m: first=m.group(2).split(';')[0]; break
    mp=os.path.join(d,'meta.json')
    if os.path.exists(mp):
        meta=json.load(open(mp)); meta['detected_by']=det; meta['not_detected_by']=sil
        json.dump(meta,open(mp,'w'),indent=1,ensure_ascii=False)
    rows.append((id,' '.join(det) or '**none**',' '.join(sil) or '-',first.replace('|','\\|')))
own=sum(1 for r in rows if r[0].split('-')[0] in r[1].split())
with open('seeded/RESULTS.md','w') as o:
    o.write('# Seeded changes and which checks report them\n\nProduced by `tools/selftest.sh` + `tools/mkresults.py` (each change applied to a scratch worktree of /repo, checks run with VERIF_REPO pointing at it, quick tier). Ids `-1`/`-2` are the first round, `-3`/`-4` the second round (authors were told what had already been done and asked for something different).\n\n')
    o.write(f'{own} of {len(rows)} changes are reported by the check of the property they break.\n\n')
    o.write('| id | reported by | also run, silent | first witness key |\n|---|---|---|---|\n')
    for r in rows: o.write('| %s | %s | %s | %s |\n'%r)
print(own,len(rows))
