#!/bin/bash
# tools/trymutant.sh <patch.diff> <ID> [tier]   run one check against a scratch worktree of /repo with the patch applied
set -u
P="$(readlink -f "$1")"; ID="$2"; TIER="${3:-quick}"
W=/var/tmp/mutwt-$$
git -C /repo worktree add -q --detach "$W" HEAD || exit 2
trap 'git -C /repo worktree remove --force "$W" >/dev/null 2>&1' EXIT
(cd "$W" && (git apply "$P" 2>/dev/null || git apply --3way "$P")) || { echo "patch does not apply"; exit 2; }
VERIF_ROOT_EVID=1 VERIF_REPO="$W" VERIF_NO_EVIDENCE=1 "$(cd "$(dirname "$0")/.." && pwd)/check" "$ID" "$TIER"
echo "exit=$?"
