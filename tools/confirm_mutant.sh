#!/bin/bash
# tools/confirm_mutant.sh <staging-dir> <property> <out-dir>
# Confirms a seeded change in a scratch worktree of /repo: it applies, builds, the existing suite passes with it,
# the demonstration fails with it and passes without it. On success writes <out-dir>/{patch.diff,demo...,meta.json}.
set -u
export GOFLAGS=-mod=mod GOPROXY=off GOSUMDB=off GOTOOLCHAIN=local
SRC="$(readlink -f "$1")"; PROP="$2"; OUT="$(readlink -m "$3")"
W=/var/tmp/confwt-$$
git -C /repo worktree add -q --detach "$W" HEAD || exit 2
trap 'git -C /repo worktree remove --force "$W" >/dev/null 2>&1; rm -rf "$W"' EXIT
P="$SRC/patch.diff"; [ -f "$SRC/patch.rebased.diff" ] && P="$SRC/patch.rebased.diff"
cd "$W"
if git apply "$P" 2>/dev/null; then :; elif git apply --3way "$P" >/dev/null 2>&1; then :; else echo "RESULT $SRC patch-does-not-apply"; exit 1; fi
git add -N . >/dev/null 2>&1; git diff HEAD > /var/tmp/conf-$$.diff; git reset -q
go build ./... >/dev/null 2>&1 || { echo "RESULT $SRC build-fails"; exit 1; }
SUITE=$(go test -vet=off -count=1 -timeout 25m ./... 2>&1 | grep -c "^FAIL")
[ "$SUITE" = 0 ] || { echo "RESULT $SRC existing-suite-fails-with-change"; exit 1; }
# place demos
DEMOS=""
for f in "$SRC"/*_test.go "$SRC"/*_test.go.txt; do
  [ -f "$f" ] || continue
  base=$(basename "$f" .txt)
  dir=.
  if grep -q "^package testdirectory" "$f"; then dir=testdirectory; fi
  cp "$f" "$dir/$base"
  DEMOS="$DEMOS $dir/$base"
done
[ -n "$DEMOS" ] || { echo "RESULT $SRC no-demo"; exit 1; }
NAMES=$(cat $DEMOS | grep -oE "^func (Test[A-Za-z0-9_]+)" | awk '{print $2}' | paste -sd'|')
RACE=""
grep -qi "race" "$SRC/notes.md" 2>/dev/null && [ "$PROP" = C15 ] && RACE="-race"
WITH=$(go test $RACE -vet=off -count=1 -timeout 10m -run "^($NAMES)\$" ./... 2>&1 | grep -c "^FAIL\|^--- FAIL")
git apply -R /var/tmp/conf-$$.diff || { echo "RESULT $SRC cannot-revert"; exit 1; }
WITHOUT=$(go test $RACE -vet=off -count=1 -timeout 10m -run "^($NAMES)\$" ./... 2>&1 | grep -c "^FAIL\|^--- FAIL")
if [ "$WITH" -gt 0 ] && [ "$WITHOUT" = 0 ]; then
  mkdir -p "$OUT"
  cp /var/tmp/conf-$$.diff "$OUT/patch.diff"
  for d in $DEMOS; do cp "$d" "$OUT/$(basename $d).txt"; done
  [ -f "$SRC/notes.md" ] && cp "$SRC/notes.md" "$OUT/notes.md"
  echo "RESULT $SRC confirmed demos=$NAMES race=$RACE"
  rm -f /var/tmp/conf-$$.diff
  exit 0
fi
echo "RESULT $SRC NOT-confirmed with=$WITH without=$WITHOUT demos=$NAMES"
rm -f /var/tmp/conf-$$.diff
exit 1
