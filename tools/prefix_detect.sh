#!/bin/bash
# tools/prefix_detect.sh   runs every check against the original snapshot of /repo (before the fix: commits) in a scratch worktree
cd "$(dirname "$0")/.."
W=/var/tmp/prefixwt-$$
git -C /repo worktree add -q --detach "$W" f883866 || exit 2
trap 'git -C /repo worktree remove --force "$W" >/dev/null 2>&1' EXIT
for id in C01 C02 C03 C04 C05 C06 C07 C08 C09 C10 C11 C12 C13 C14 C15 C16 C17 C18 C19 C20; do
  r=$(VERIF_REPO="$W" VERIF_NO_EVIDENCE=1 timeout 1800 ./check $id quick 2>&1); code=$?
  echo "== $id exit=$code"
  echo "$r" | grep "^  key:\|^KNOWN" | cut -c1-220 | head -12
done
