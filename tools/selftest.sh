#!/bin/bash
# tools/selftest.sh [id ...]   runs the check(s) of each seeded change against a scratch worktree with the change applied
# and records which checks report a violation in seeded/<id>/detected.txt and seeded/RESULTS.md
cd "$(dirname "$0")/.."
declare -A EXTRA=( [C03-1]="C06" [C04-2]="C05 C15" [C05-1]="C15" [C05-2]="C15" [C08-1]="C10" [C10-2]="C08" [C09-1]="C08" [C12-1]="C08" [C08-2]="C12" [C06-2]="C13" [C13-1]="C05" [C11-2]="C07" [C19-1]="C20" [C20-2]="C19" [C06-3]="C07" [C07-3]="C06" [C07-4]="C15" [C08-4]="C11" [C11-3]="C13" [C13-4]="C06" [C14-3]="C15" [C15-3]="C03 C06" [C15-4]="C12" [C17-4]="C07" [C19-3]="C15" [C12-3]="C08" [C04-3]="C05" [C05-3]="C04" [C05-4]="C04" [C16-3]="C14" [C17-3]="C06" )
ids=("$@"); [ ${#ids[@]} -eq 0 ] && ids=($(ls seeded | grep -E '^C[0-9]+-[0-9]+$'))
for id in "${ids[@]}"; do
  prop=${id%%-*}
  out=""
  for chk in $prop ${EXTRA[$id]:-}; do
    r=$(timeout 1500 tools/trymutant.sh seeded/$id/patch.diff $chk quick 2>&1)
    code=$(echo "$r" | grep -o "exit=[0-9]*" | tail -1); echo "$r" | grep -q "patch does not apply" && code="exit=9(patch-does-not-apply)"
    keys=$(echo "$r" | grep "^  key:" | head -3 | sed 's/^  key: //' | cut -c1-160 | paste -sd';')
    out="$out$chk $code $keys\n"
  done
  printf "$out" > seeded/$id/detected.txt
  echo "== $id"; printf "$out"
done
