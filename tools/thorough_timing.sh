#!/bin/bash
# tools/thorough_timing.sh [ids...]   run the thorough check of the given properties (default: all), report exit
# code, wall time, number of VIOLATION / KNOWN-FINDING lines and what the evidence says about exhaustiveness
cd "$(dirname "$0")/.."
ids="$*"; [ -z "$ids" ] && ids="C01 C02 C03 C04 C05 C06 C07 C08 C09 C10 C11 C12 C13 C14 C15 C16 C17 C18 C19 C20"
for id in $ids; do
  s=$(date +%s); ./check $id thorough > /var/tmp/thor-$id.log 2>&1; code=$?; e=$(date +%s)
  ex=$(python3 -c "import json; e=json.load(open('evidence/$id.json')); c=e.get('coverage',{}); print('tier=%s exhaustive=%s evaluations=%s'%(e.get('tier'), c.get('exhaustive'), c.get('evaluations')))" 2>/dev/null)
  echo "$id exit=$code $((e-s))s viol=$(grep -c '^VIOLATION' /var/tmp/thor-$id.log) known=$(grep -c '^KNOWN-FINDING' /var/tmp/thor-$id.log) $ex"
done
