#!/bin/bash
for id in C03 C04 C14 C16 C02 C19 C20 C17 C18; do
  s=$(date +%s); VERIF_NO_EVIDENCE=1 ./check $id thorough > /tmp/thor-$id.log 2>&1; code=$?; e=$(date +%s)
  echo "$id exit=$code $((e-s))s $(grep -c VIOLATION /tmp/thor-$id.log)"
done
