#!/bin/bash
# tools/devsched.sh [-p patch.diff] <sched args...>   development aid: build the SCHED worker against /repo (or a
# scratch worktree of it with the patch applied) and run it with the given arguments, e.g.
#   tools/devsched.sh one fault-reset 2 C07        tools/devsched.sh -p x.diff all 1 unbind
# Everything lives under /var/tmp/devsched-$$ and is removed afterwards. Not used by any registered check.
set -u
export GOFLAGS=-mod=mod GOPROXY=off GOSUMDB=off GOTOOLCHAIN=local
ROOT="$(cd "$(dirname "$0")/.." && pwd)"; ENG="$ROOT/engine"
S=/var/tmp/devsched-$$; mkdir -p "$S"
REPO=/repo; W=""
cleanup() { [ -n "$W" ] && git -C /repo worktree remove --force "$W" >/dev/null 2>&1; rm -rf "$S"; }
trap cleanup EXIT
if [ "${1:-}" = -p ]; then
  P="$(readlink -f "$2")"; shift 2
  W=/var/tmp/devwt-$$; git -C /repo worktree add -q --detach "$W" HEAD || exit 2
  (cd "$W" && (git apply "$P" 2>/dev/null || git apply --3way "$P")) || { echo "patch does not apply"; exit 2; }
  REPO="$W"
fi
MODFLAG=""
if [ "$REPO" != /repo ]; then sed "s#=> /repo#=> $REPO#" "$ENG/go.mod" > "$S/go.mod"; cp "$ENG/go.sum" "$S/go.sum"; MODFLAG="-modfile=$S/go.mod"; fi
(cd "$ENG" && go build -o "$S/vxform" ./cmd/vxform) || exit 2
"$S/vxform" -src "$REPO" -out "$S/gldapx" -export "$ENG/export" -overlay "$S/overlay.json" -virt "$ENG/gldapx" >"$S/xform.log" 2>&1 || { tail "$S/xform.log"; exit 2; }
(cd "$ENG" && go build $MODFLAG -overlay "$S/overlay.json" -o "$S/sched.bin" ./sched) || exit 2
export VERIF_ROOT="$ROOT" VERIF_REPO="$REPO" VERIF_NO_EVIDENCE=1 VERIF_SCRATCH_DIR="$S"
if [ "${1:-}" = list-file ]; then   # list-file <file with "scenario prop" lines> <bound>
  while read -r scn prop; do
    [ -n "$scn" ] || continue
    timeout "${DEV_TIMEOUT:-600}" "$S/sched.bin" one "$scn" "$3" "$prop" 2>&1 | grep -v "^    " | cut -c1-400
  done < "$2"
  exit 0
fi
timeout "${DEV_TIMEOUT:-600}" "$S/sched.bin" "$@"
echo "exit=$?"
