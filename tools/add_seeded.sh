#!/bin/bash
# tools/add_seeded.sh <staging-root> <needs.json> [ids...]
# Confirms staged seeded changes (<staging-root>/<Cnn>-MUTANT<k>) with tools/confirm_mutant.sh and files the confirmed
# ones under seeded/<Cnn>-<k>/ with a meta.json. needs.json maps "<Cnn>-<k>" to the needs_to_manifest text.
cd "$(dirname "$0")/.."
ROOT="$1"; NEEDS="$2"; shift 2
for d in "$ROOT"/C*-MUTANT*; do
  b=$(basename "$d"); prop=${b%%-*}; k=${b##*MUTANT}; [ -z "$k" ] && k=1
  id="$prop-$k"
  if [ $# -gt 0 ]; then case " $* " in *" $id "*) ;; *) continue ;; esac; fi
  rm -rf "seeded/$id"
  if tools/confirm_mutant.sh "$d" "$prop" "seeded/$id" | tee /dev/stderr | grep -q " confirmed "; then
    python3 - "$id" "$prop" "$NEEDS" <<'P'
import json,sys,os,glob
id,prop,needs=sys.argv[1:4]
n=json.load(open(needs)).get(id,"")
demos=sorted(os.path.basename(p) for p in glob.glob(f"seeded/{id}/*_test.go.txt"))
meta={"id":id,"breaks_property":prop,"needs_to_manifest":n,
 "produced_by":"independent sub-agent given only the property text and a scratch worktree of /repo (later rounds: told which changes had already been made for this property and asked for a different location, mechanism and trigger)",
 "confirmed":{"how":"tools/confirm_mutant.sh in a scratch worktree of /repo HEAD: patch applies, go build ./... passes, the unedited suite (go test -vet=off -count=1 ./...) passes with the patch, the demonstration fails with the patch and passes after reverting it","demonstration":demos},
 "patch_base":"applies to /repo at the commit current when seeded (after the fix: commits)",
 "detected_by":[],"not_detected_by":[]}
json.dump(meta,open(f"seeded/{id}/meta.json","w"),indent=1,ensure_ascii=False)
P
  else
    echo "NOT CONFIRMED: $id"
  fi
done
