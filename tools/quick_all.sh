#!/bin/bash
# tools/quick_all.sh [ids...]   run the quick check of every property, report exit code, wall time and exhaustiveness
cd "$(dirname "$0")/.."
ids="$*"; [ -z "$ids" ] && ids="C01 C02 C03 C04 C05 C06 C07 C08 C09 C10 C11 C12 C13 C14 C15 C16 C17 C18 C19 C20"
for id in $ids; do
  t0=$(date +%s)
  ./check $id quick > /var/tmp/quick-$id.out 2>&1; rc=$?
  t1=$(date +%s)
  ex=$(python3 -c "import json,sys; e=json.load(open('evidence/$id.json')); c=e.get('coverage',{}); print('exhaustive=%s bound=%s'%(c.get('exhaustive'), c.get('deviation_bound_completed', c.get('depth_completed'))))" 2>/dev/null)
  echo "$id rc=$rc $((t1-t0))s $ex viol=$(grep -c '^VIOLATION' /var/tmp/quick-$id.out) known=$(grep -c '^KNOWN-FINDING' /var/tmp/quick-$id.out)"
done
