#!/usr/bin/env python3
"""Regenerates /verif/MANIFEST.json from the table below (kept in one place so it stays valid)."""
import json, os, sys
ROOT = os.path.dirname(os.path.dirname(os.path.abspath(__file__)))
props = [json.loads(l) for l in open(os.path.join(ROOT, 'properties.jsonl'))]
ids = [p['id'] for p in props]

ENUM_NOTE = "Trusted base: the raw BER builder / strict parser in engine/codec (independent of go-asn1-ber), the reference functions written in the check, Go's runtime. The real gldap code is called through an overlay-added export file (engine/export); nothing is mocked. Alphabets are finite and stated in the evidence."
SCHED_NOTE = "Trusted base: the cooperative scheduler and shims in engine/rt and engine/shim (sockets, clock, sync, context are modelled; bound to the real ones by the conformance suite run in setup and by real-TCP replays), the source transformer engine/cmd/vxform (mechanical, type-directed). Code between two scheduling points is atomic, which is sound for race-free programs; the happens-before oracle reports the others."
REAL_NOTE = "Runs the untransformed gldap / testdirectory on real loopback TCP with the real go-ldap client and crypto/tls; finite matrices / bounded histories are enumerated completely. The only timing assumption is a 30 s per-call ceiling, reported as inconclusive rather than as a violation when hit."

C = {}
def chk(id, engine, cat, text, tech, ref, note):
    C[id] = dict(property_id=id, quick_cmd="./check %s quick" % id, thorough_cmd="./check %s thorough" % id,
                 evidence_file="/verif/evidence/%s.json" % id, replay_cmd_template="./check replay {path}", engine=engine,
                 level_claimed=dict(category=cat, text=text, design_ref=ref), level_note=note, technique=tech)

# --- claimed checks (extended as checks are built) ---
exec(open(os.path.join(ROOT, 'tools', 'claims.py')).read())

na = []
for p in props:
    if p['id'] not in C:
        na.append(dict(property_id=p['id'], reason=NA.get(p['id'], "check not built yet in this round (see DESIGN.md section 5 for the planned design)")))

m = dict(
    version=1,
    setup_cmd="./setup.sh",
    hooks=dict(guard="verif", enable="no hook is committed to /repo: every check re-runs engine/cmd/vxform on /repo's working tree (SCHED) or adds engine/export/*.go.txt through go build -overlay (ENUM/REAL); the build tag 'verif' is reserved and unused",
               baseline_off_cmd="cd /repo && go test -vet=off -count=1 -timeout 25m ./...", source_commits=[], add_only=True),
    engines=[
        dict(name="enum", path="engine/enum", serves_properties=[i for i in ids if i in C and C[i]['engine']=='enum'], kind_free_text="explicit-state / bounded-exhaustive enumeration over the real API against reference models"),
        dict(name="sched", path="engine/sched", serves_properties=[i for i in ids if i in C and C[i]['engine']=='sched'], kind_free_text="stateless deviation-bounded exploration of the real gldap code under a controlled cooperative scheduler with a vector-clock race oracle"),
        dict(name="real", path="engine/real", serves_properties=[i for i in ids if i in C and C[i]['engine']=='real'], kind_free_text="exhaustive finite matrices and BFS over operation histories on the real TCP stack with the go-ldap client"),
    ],
    checks=[C[i] for i in ids if i in C],
    notes="All checks rebuild from /repo's working tree. exit 0 = held, 1 = VIOLATION line, 2 = checker failure. known_findings.json lists recorded/fixed defects. See DESIGN.md.",
    not_applicable=na,
)
json.dump(m, open(os.path.join(ROOT, 'MANIFEST.json'), 'w'), indent=1)
print("checks:", [c['property_id'] for c in m['checks']], "na:", len(na))
