#!/bin/bash
# Run once after a fresh restore (offline): warms the Go build cache for all workers.
set -u
export GOFLAGS=-mod=mod GOPROXY=off GOSUMDB=off GOTOOLCHAIN=local
cd "$(dirname "$0")/engine" || exit 1
go build ./cmd/... ./rt/... ./shim/... ./codec/... ./ev/... || exit 1
exit 0
