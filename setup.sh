#!/bin/bash
# Run once after a fresh restore (offline): warms the Go build cache for all workers.
set -u
export GOFLAGS=-mod=mod GOPROXY=off GOSUMDB=off GOTOOLCHAIN=local
cd "$(dirname "$0")/engine" || exit 1
go build ./cmd/... ./rt/... ./shim/... ./codec/... ./ev/... ./conform/... || exit 1
# warm the cache for both build flavours and validate the environment model once
(cd .. && ./check C16 quick >/dev/null 2>&1; ./check C12 quick >/dev/null 2>&1; true)
exit 0
